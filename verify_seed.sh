#!/bin/bash
# usage: verify_seed.sh <worktree> <change dir> "<test dirs>"  [demo link libs]
# Confirms in a scratch worktree (already configured+built by autotools) that a seeded change
# (1) applies and compiles, (2) leaves the listed test directories passing, (3) makes the demonstration fail,
# and that the demonstration passes without the change.  Prints a summary; leaves the worktree clean.
wt=$1; ch=$2; tests=$3
cd $wt || exit 2
git checkout -q -- cola
log=$ch/verify.log; : > $log
libs="$wt/cola/libdialect/.libs/libdialect.a $wt/cola/libtopology/.libs/libtopology.a $wt/cola/libcola/.libs/libcola.a $wt/cola/libavoid/.libs/libavoid.a $wt/cola/libvpsc/.libs/libvpsc.a"
build_demo() { g++ -std=gnu++11 -w -I$wt/cola $ch/demo.cpp $libs -o $ch/demo.bin >> $log 2>&1; }
run_demo() { timeout 300 $ch/demo.bin >> $log 2>&1; echo $?; }
(cd cola && make -j8 >> $log 2>&1)
build_demo || { echo "demo does not compile (baseline)"; }
base=$(run_demo)
git apply $ch/patch.diff || { echo "PATCH DOES NOT APPLY"; exit 1; }
(cd cola && make -j8 >> $log 2>&1) || { echo "DOES NOT COMPILE"; git checkout -q -- cola; exit 1; }
build_demo
with=$(run_demo)
fails=0; passes=0
for t in $tests; do
  out=$(cd cola/$t && make -k check -j8 2>&1 | grep -E "^# (PASS|FAIL|ERROR|XFAIL|XPASS):")
  p=$(echo "$out" | awk '/# PASS/{print $3}'); f=$(echo "$out" | awk '/# FAIL/{print $3}'); e=$(echo "$out" | awk '/# ERROR/{print $3}')
  passes=$((passes + ${p:-0})); fails=$((fails + ${f:-0} + ${e:-0}))
done
git checkout -q -- cola
(cd cola && make -j8 >> $log 2>&1)
echo "change=$ch demo_without_patch_exit=$base demo_with_patch_exit=$with tests_passed=$passes tests_failed=$fails"
