// C06: incremental transactions give what routing from scratch gives.
// A random history of transactions (add / move / resize / delete shape, move endpoint, add / delete connector, no-ops) is applied
// to one live Router; after every processTransaction() a FRESH Router is built for the same final scene (the reference model) and
// every connector is compared: validity, cost(incremental) <= cost(fresh) + 1e-6, and idle transactions leave routes bit-identical.
#include "avoid_scene.h"

using namespace av;

struct LiveShape { IPoly poly; bool isRect; Avoid::ShapeRef *ref; };
struct LiveConn { IP src, dst; Avoid::ConnRef *ref; };

static double routeCost(const Avoid::PolyLine &r, bool orth, double pen) {
    double L = 0;
    for (size_t i = 1; i < r.size(); i++) L += orth ? std::fabs(r.ps[i].x - r.ps[i - 1].x) + std::fabs(r.ps[i].y - r.ps[i - 1].y) : std::hypot(r.ps[i].x - r.ps[i - 1].x, r.ps[i].y - r.ps[i - 1].y);
    return L + pen * countBends(r);
}
static bool sameRoute(const Avoid::PolyLine &a, const Avoid::PolyLine &b) {
    if (a.size() != b.size()) return false;
    for (size_t i = 0; i < a.size(); i++) if (a.ps[i].x != b.ps[i].x || a.ps[i].y != b.ps[i].y) return false;
    return true;
}

static void case_history(const Args &a, long idx, bool wantDesc, CaseResult &res) {
    Rng R(mix(mix(a.seed, 0xC06), (uint64_t)idx));
    bool orth = R.coin(0.4);
    bool transactions = R.coin(0.8);
    double pen = orth ? std::vector<double>{1, 10, 50}[R.ri(0, 2)] : (R.coin(0.7) ? 0 : R.coin() ? 5 : 50);
    bool allowPolys = !orth;
    // "lenient" polyline histories: shapes may be placed over free connector endpoints and move off them again, and endpoints may
    // be created inside shapes (legal use: an endpoint inside a shape is exempt from that shape)
    bool lenient = !orth && R.coin(0.3);
    std::map<int, LiveShape> shapes; int nextId = 1;
    std::vector<LiveConn> conns;
    JArr hist;    // the recorded history
    Digest D; D.i(orth); D.i(transactions); D.d(pen);

    Avoid::Router *router = new Avoid::Router(orth ? Avoid::OrthogonalRouting : Avoid::PolyLineRouting);
    router->setRoutingParameter(Avoid::segmentPenalty, pen);
    if (orth) router->setRoutingParameter(Avoid::idealNudgingDistance, 1);
    if (!transactions) router->setTransactionUse(false);
    // the public switch Router::InvisibilityGrph (default true): without the invisibility graph, edges hidden by an obstacle are re-created by
    // checkAllMissingEdges() after that obstacle goes away (the library's own beautify / makefeasible tests run this way)
    bool noInvis = !orth && R.coin(0.15); if (noInvis) router->InvisibilityGrph = false;
    // some histories also change a routing parameter (shapeBufferDistance) between transactions: the fresh router is built with the current value
    bool paramHistory = R.coin(orth ? 0.3 : 0.08); double buf = 0; bool bufChanged = false; static const double bufs[] = {0, 0.25, 0.5, 0.75};
    // (polyline histories start unbuffered: everything after their first change is F95 territory)
    if (paramHistory && R.coin(0.5) && orth) { buf = bufs[R.ri(1, 3)]; router->setRoutingParameter(Avoid::shapeBufferDistance, buf); }
    struct Guard { Avoid::Router *&r; ~Guard() { if (!std::uncaught_exception()) delete r; } } guard{router};   // a router an assertion unwound through is abandoned, not destroyed

    auto fits = [&](const IPoly &pl, int skip) {
        for (auto &kv : shapes) if (kv.first != skip && !boxesClear(pl, kv.second.poly, 2)) return false;
        if (lenient) return true;
        ll x0, y0, x1, y1; bbox(pl, x0, y0, x1, y1);
        for (auto &c : conns) for (IP p : {c.src, c.dst}) if (p.x >= x0 - 1 && p.x <= x1 + 1 && p.y >= y0 - 1 && p.y <= y1 + 1) return false;
        return true;
    };
    auto randPoly = [&](bool *isRect) { ll w = R.ri(3, 50), h = R.ri(3, 50), cx = R.ri(w + 5, 395 - w), cy = R.ri(h + 5, 395 - h); return randomConvex(R, cx, cy, w, h, allowPolys, isRect); };
    auto freePt = [&](IP &p) {
        if (lenient && !shapes.empty() && R.coin(0.4)) { auto it = shapes.begin(); std::advance(it, R.ri(0, (long)shapes.size() - 1)); ll x0, y0, x1, y1; bbox(it->second.poly, x0, y0, x1, y1); p = IP{(x0 + x1) / 2, (y0 + y1) / 2}; return true; }
        for (int t = 0; t < 300; t++) { p = IP{R.ri(0, 400), R.ri(0, 400)}; bool ok = true; for (auto &kv : shapes) { ll x0, y0, x1, y1; bbox(kv.second.poly, x0, y0, x1, y1); if (p.x >= x0 - 1 && p.x <= x1 + 1 && p.y >= y0 - 1 && p.y <= y1 + 1) ok = false; } if (ok) return true; } return false; };
    auto addShape = [&]() -> int {
        for (int t = 0; t < 50; t++) { bool isRect; IPoly pl = randPoly(&isRect); if (!fits(pl, -1)) continue; Avoid::Polygon pg = toPolygon(pl); int id = nextId++; shapes[id] = LiveShape{pl, isRect, new Avoid::ShapeRef(router, pg)}; hist.raw(JObj().str("op", "addShape").i("id", id).raw("poly", polyj(pl)).done()); D.i(1); for (auto &p : pl) { D.i(p.x); D.i(p.y); } return id; }
        return -1;
    };
    auto addConn = [&]() -> bool {
        IP s, t; if (!freePt(s) || !freePt(t) || s == t) return false;
        Avoid::ConnRef *cr = new Avoid::ConnRef(router, Avoid::ConnEnd(Avoid::Point((double)s.x, (double)s.y)), Avoid::ConnEnd(Avoid::Point((double)t.x, (double)t.y)));
        cr->setRoutingType(orth ? Avoid::ConnType_Orthogonal : Avoid::ConnType_PolyLine);
        conns.push_back(LiveConn{s, t, cr}); hist.raw(JObj().str("op", "addConnector").raw("src", ipj(s)).raw("dst", ipj(t)).done()); D.i(2); D.i(s.x); D.i(s.y); D.i(t.x); D.i(t.y); return true;
    };

    // ---- reference model: fresh router for the current scene
    long comparisons = 0, routeChanges = 0;
    std::vector<IPoly> newlyPlaced;   // polygons added or moved to a new position in the transaction just processed
    auto compareWithFresh = [&](const char *when, int txn) {
        Scene S; S.orthogonal = orth; S.params[Avoid::segmentPenalty] = pen; if (orth) S.params[Avoid::idealNudgingDistance] = 1; if (paramHistory) S.params[Avoid::shapeBufferDistance] = buf;
        for (auto &kv : shapes) { ShapeSpec sp; sp.poly = kv.second.poly; sp.isRect = kv.second.isRect; S.shapes.push_back(sp); }
        for (auto &c : conns) { ConnSpec cs; cs.src = c.src; cs.dst = c.dst; S.conns.push_back(cs); }
        Built F; build(S, F); if (noInvis) F.router->InvisibilityGrph = false;
        set_stage("fresh.processTransaction"); F.router->processTransaction(); set_stage("compare");
        for (size_t c = 0; c < conns.size(); c++) {
            const Avoid::PolyLine &inc = conns[c].ref->route(), &fresh = F.conns[c]->route(), &disp = conns[c].ref->displayRoute();
            comparisons++;
            auto wit = [&](double ci, double cf) { return JObj().str("when", when).i("transaction", txn).i("connector", (long)c).num("cost_incremental", ci).num("cost_fresh", cf).raw("route_incremental", routej(inc)).raw("route_fresh", routej(fresh)).raw("final_scene", scene_json(S)).raw("history", hist.done()).done(); };
            if (disp.size() < 2 || inc.size() < 2) { res.violate("route-too-short", wit(0, 0)); continue; }
            if (disp.ps[0].x != (double)conns[c].src.x || disp.ps[0].y != (double)conns[c].src.y || disp.ps[disp.size() - 1].x != (double)conns[c].dst.x || disp.ps[disp.size() - 1].y != (double)conns[c].dst.y) { res.violate("route-endpoints-stale", wit(0, 0)); continue; }
            // validity for the final scene
            std::vector<char> ex(S.shapes.size(), 0);
            for (size_t s = 0; s < S.shapes.size(); s++) if (ptInClosed(conns[c].src, S.shapes[s].poly) || ptInClosed(conns[c].dst, S.shapes[s].poly)) ex[s] = 1;
            bool invalid = false, freshInvalid = false;
            for (size_t i = 1; i < disp.size() && !invalid; i++) for (size_t s = 0; s < S.shapes.size(); s++) if (!ex[s] && segHitsInteriorEps(DP{disp.ps[i - 1].x, disp.ps[i - 1].y}, DP{disp.ps[i].x, disp.ps[i].y}, S.shapes[s].poly, 1e-7)) { invalid = true; break; }
            const Avoid::PolyLine &fdisp = F.conns[c]->displayRoute();
            for (size_t i = 1; i < fdisp.size() && !freshInvalid; i++) for (size_t s = 0; s < S.shapes.size(); s++) if (!ex[s] && segHitsInteriorEps(DP{fdisp.ps[i - 1].x, fdisp.ps[i - 1].y}, DP{fdisp.ps[i].x, fdisp.ps[i].y}, S.shapes[s].poly, 1e-7)) { freshInvalid = true; break; }
            double ci = routeCost(inc, orth, pen), cf = routeCost(fresh, orth, pen);
            res.maxi("max_incremental_minus_fresh_cost", ci - cf);
            if (invalid && !freshInvalid) {
                // signature of F19 (degenerate contact): every raw segment that passes through a shape does so without properly crossing one of its edges
                bool degenerate = !orth;
                if (!orth) for (size_t i = 1; i < inc.size(); i++) for (size_t s = 0; s < S.shapes.size(); s++) { DP p{inc.ps[i - 1].x, inc.ps[i - 1].y}, q{inc.ps[i].x, inc.ps[i].y}; if (!ex[s] && segHitsInteriorEps(p, q, S.shapes[s].poly, 1e-7) && properlyCrossesAnEdge(p, q, S.shapes[s].poly)) degenerate = false; }
                res.violate(std::string(orth ? "orthogonal" : "polyline") + (degenerate ? ":incremental-route-invalid-for-final-scene(degenerate-contact)" : ":incremental-route-invalid-for-final-scene"), wit(ci, cf)); continue;
            }
            if (invalid && freshInvalid) { res.count("both_invalid(C03 business)"); continue; }
            bool freshUsesNew = false;   // signature of F28: with a bend penalty the fresh route bends at a corner of a shape that was only just placed
            if (pen > 0 && !orth) for (size_t i = 1; i + 1 < fresh.size(); i++) for (auto &pl : newlyPlaced) for (auto &v : pl) if (fresh.ps[i].x == (double)v.x && fresh.ps[i].y == (double)v.y) freshUsesNew = true;
            if (ci > cf + 1e-6 && freshUsesNew) res.violate("polyline:incremental-costlier-than-fresh(fresh-route-bends-at-newly-placed-shape)", wit(ci, cf));
            else if (ci > cf + 1e-6) res.violate(std::string(orth ? "orthogonal" : "polyline") + (pen > 0 && !orth && countBends(inc) > countBends(fresh) && polylineLength(inc) <= polylineLength(fresh) + 1e-6 ? ":incremental-costlier-than-fresh(not-longer-only-more-bends)" : std::find(ex.begin(), ex.end(), 1) != ex.end() && !orth ? ":incremental-costlier-than-fresh[an-endpoint-lies-inside-a-shape]" : ":incremental-costlier-than-fresh"), wit(ci, cf));
            else if (ci < cf - 1e-6) res.count("fresh_router_suboptimal(not judged here; C04/C05 business)");
        }
    };

    // ---- initial scene
    // sometimes an endpoint starts walled in by a closed frame of four overlapping bars (no path: the documented straight-line fallback);
    // once a later transaction opens the frame the connector has to be routed properly, like the fresh router does
    bool walled = !orth && R.coin(0.12);
    if (walled) {
        IP p{R.ri(110, 290), R.ri(110, 290)}; ll a = R.ri(15, 40), t = R.ri(6, 14);
        IPoly bars[4] = {rectPoly(p.x - a - t, p.y - a - t, p.x - a, p.y + a + t), rectPoly(p.x + a, p.y - a - t, p.x + a + t, p.y + a + t), rectPoly(p.x - a - t, p.y - a - t, p.x + a + t, p.y - a), rectPoly(p.x - a - t, p.y + a, p.x + a + t, p.y + a + t)};
        for (auto &pl : bars) { Avoid::Polygon pg = toPolygon(pl); int id = nextId++; shapes[id] = LiveShape{pl, true, new Avoid::ShapeRef(router, pg)}; hist.raw(JObj().str("op", "addShape").i("id", id).raw("poly", polyj(pl)).str("note", "bar of a closed frame").done()); D.i(1); for (auto &q : pl) { D.i(q.x); D.i(q.y); } }
        IP q; for (int tr = 0; tr < 100; tr++) { q = IP{R.ri(0, 400), R.ri(0, 400)}; if (std::llabs(q.x - p.x) > a + t + 5 || std::llabs(q.y - p.y) > a + t + 5) break; }
        Avoid::ConnRef *cr = new Avoid::ConnRef(router, Avoid::ConnEnd(Avoid::Point((double)p.x, (double)p.y)), Avoid::ConnEnd(Avoid::Point((double)q.x, (double)q.y))); cr->setRoutingType(Avoid::ConnType_PolyLine);
        conns.push_back(LiveConn{p, q, cr}); hist.raw(JObj().str("op", "addConnector").raw("src", ipj(p)).raw("dst", ipj(q)).str("note", "source inside the frame").done()); D.i(2); D.i(p.x); D.i(p.y); D.i(q.x); D.i(q.y);
        res.count("histories_starting_with_a_walled_in_endpoint");
    }
    int ns = (int)R.ri(2, 9); for (int i = 0; i < ns; i++) addShape();
    int nc = (int)R.ri(1, 4); for (int c = 0; c < nc; c++) addConn();
    if (conns.empty()) { res.inconclusive = "no-connectors"; return; }
    set_stage("processTransaction"); router->processTransaction();
    compareWithFresh("initial", 0);

    int ntx = (int)R.ri(1, 12);
    for (int tx = 1; tx <= ntx && res.findings.empty(); tx++) {
        int nops = transactions ? (int)R.ri(1, 4) : 1;
        std::set<int> touched; bool geometricNoopOnly = true; bool anyOp = false;
        std::vector<Avoid::PolyLine> before; for (auto &c : conns) before.push_back(c.ref->displayRoute());
        std::vector<double> costBefore; for (auto &c : conns) costBefore.push_back(routeCost(c.ref->route(), orth, pen));
        size_t connsBefore = conns.size();
        hist.raw(JObj().str("op", "beginTransaction").i("n", tx).done());
        newlyPlaced.clear();
        for (int o = 0; o < nops; o++) {
            int k = (int)R.ri(0, 99);
            auto pick = [&]() -> int { if (shapes.empty()) return -1; auto it = shapes.begin(); std::advance(it, R.ri(0, (long)shapes.size() - 1)); return touched.count(it->first) ? -1 : it->first; };
            set_stage("queue-op");
            if (k < 30) {           // move (absolute polygon: translate or resize) or relative move
                int id = pick(); if (id < 0) continue;
                LiveShape &ls = shapes[id];
                for (int t = 0; t < 30; t++) {
                    IPoly np; bool isRect = ls.isRect; int how = (int)R.ri(0, 2);
                    ll dx = R.ri(-40, 40), dy = R.ri(-40, 40);
                    // jump + resize; Obstacle::setNewPoly asserts that the vertex count is unchanged, so a resized shape keeps its kind
                    if (how == 2 && ls.isRect) { ll w = R.ri(3, 50), h = R.ri(3, 50), cx = R.ri(w + 5, 395 - w), cy = R.ri(h + 5, 395 - h); np = rectPoly(cx - w, cy - h, cx + w, cy + h); }
                    else if (how == 2) { ll k = R.ri(1, 3); ll x0, y0, x1, y1; bbox(ls.poly, x0, y0, x1, y1); for (auto &p : ls.poly) np.push_back({x0 + dx + (p.x - x0) * k / 2 * 2 / 2, y0 + dy + (p.y - y0) * k / 2 * 2 / 2}); if (k == 1) { np.clear(); for (auto &p : ls.poly) np.push_back({p.x + dx, p.y + dy}); } else { np.clear(); for (auto &p : ls.poly) np.push_back({x0 + dx + (p.x - x0) * k, y0 + dy + (p.y - y0) * k}); } }
                    else { for (auto &p : ls.poly) np.push_back({p.x + dx, p.y + dy}); }
                    ll x0, y0, x1, y1; bbox(np, x0, y0, x1, y1); if (x0 < 0 || y0 < 0 || x1 > 400 || y1 > 400) continue;
                    if (!fits(np, id)) continue;
                    if (how == 0) { router->moveShape(ls.ref, (double)dx, (double)dy); hist.raw(JObj().str("op", "moveShapeRel").i("id", id).i("dx", dx).i("dy", dy).done()); }
                    else { Avoid::Polygon pg = toPolygon(np); router->moveShape(ls.ref, pg); hist.raw(JObj().str("op", "moveShapeAbs").i("id", id).raw("poly", polyj(np)).done()); }
                    ls.poly = np; ls.isRect = isRect; touched.insert(id); newlyPlaced.push_back(np); geometricNoopOnly = false; anyOp = true; D.i(3); D.i(id); D.i(dx); D.i(dy); break;
                }
            } else if (k < 45) {    // delete shape
                int id = pick(); if (id < 0 || shapes.size() <= 1) continue;
                router->deleteShape(shapes[id].ref); shapes.erase(id); touched.insert(id); hist.raw(JObj().str("op", "deleteShape").i("id", id).done()); geometricNoopOnly = false; anyOp = true; D.i(4); D.i(id);
            } else if (k < 60) {    // add shape
                int id = addShape(); if (id >= 0) { touched.insert(id); geometricNoopOnly = false; anyOp = true; newlyPlaced.push_back(shapes[id].poly); }
            } else if (k < 75) {    // move a connector endpoint
                size_t c = (size_t)R.ri(0, (long)conns.size() - 1); int e = (int)R.ri(0, 1); IP p; if (!freePt(p)) continue;
                IP other = e ? conns[c].src : conns[c].dst; if (p == other) continue;
                (e ? conns[c].dst : conns[c].src) = p;
                if (e) conns[c].ref->setDestEndpoint(Avoid::ConnEnd(Avoid::Point((double)p.x, (double)p.y))); else conns[c].ref->setSourceEndpoint(Avoid::ConnEnd(Avoid::Point((double)p.x, (double)p.y)));
                hist.raw(JObj().str("op", e ? "setDestEndpoint" : "setSourceEndpoint").i("connector", (long)c).raw("to", ipj(p)).done()); geometricNoopOnly = false; anyOp = true; D.i(5); D.i((ll)c); D.i(e); D.i(p.x); D.i(p.y);
            } else if (k < 83) {    // add a connector
                if (conns.size() < 8 && addConn()) { geometricNoopOnly = false; anyOp = true; }
            } else if (k < 88) {    // delete a connector
                if (conns.size() > 1 && connsBefore > 0) { size_t c = (size_t)R.ri(0, (long)connsBefore - 1); /* only connectors that existed before this transaction */ router->deleteConnector(conns[c].ref); conns.erase(conns.begin() + (long)c); before.erase(before.begin() + (long)c); costBefore.erase(costBefore.begin() + (long)c); connsBefore--; hist.raw(JObj().str("op", "deleteConnector").i("connector", (long)c).done()); anyOp = true; geometricNoopOnly = false; D.i(6); D.i((ll)c); }
            } else if (k < 94) {    // geometric no-op: move by (0,0)
                int id = pick(); if (id < 0) continue;
                router->moveShape(shapes[id].ref, 0.0, 0.0); touched.insert(id); hist.raw(JObj().str("op", "moveShapeRel").i("id", id).i("dx", 0).i("dy", 0).done()); anyOp = true; D.i(7); D.i(id);
            } else {                // geometric no-op: endpoint set to where it already is
                size_t c = (size_t)R.ri(0, (long)conns.size() - 1); IP p = conns[c].src;
                conns[c].ref->setSourceEndpoint(Avoid::ConnEnd(Avoid::Point((double)p.x, (double)p.y))); hist.raw(JObj().str("op", "setSourceEndpoint").i("connector", (long)c).raw("to", ipj(p)).str("note", "unchanged position").done()); anyOp = true; D.i(8); D.i((ll)c);
            }
        }
        if (paramHistory && R.coin(0.4)) { double nb = bufs[R.ri(0, 3)]; if (nb != buf) { buf = nb; bufChanged = bufChanged || !shapes.empty(); set_stage("setRoutingParameter"); router->setRoutingParameter(Avoid::shapeBufferDistance, buf); hist.raw(JObj().str("op", "setRoutingParameter").str("parameter", "shapeBufferDistance").num("value", buf).done()); anyOp = true; geometricNoopOnly = false; D.i(9); D.d(buf); res.count("shape_buffer_distance_changes"); } }
        set_stage("processTransaction");
        router->processTransaction();
        hist.raw(JObj().str("op", "processTransaction").done());
        res.count("transactions");
        if (!anyOp) {
            // nothing queued: every route must be bit-identical
            res.count("idle_transactions");
            for (size_t c = 0; c < conns.size() && c < before.size(); c++) if (!sameRoute(before[c], conns[c].ref->displayRoute())) { res.violate("idle-transaction-changed-route", JObj().i("transaction", tx).i("connector", (long)c).raw("before", routej(before[c])).raw("after", routej(conns[c].ref->displayRoute())).raw("history", hist.done()).done()); break; }
        } else if (geometricNoopOnly) {
            res.count("geometric_noop_transactions");
            for (size_t c = 0; c < connsBefore && c < conns.size(); c++) { double cb = costBefore[c], ca = routeCost(conns[c].ref->route(), orth, pen); if (std::fabs(cb - ca) > 1e-6) { res.violate("geometric-noop-changed-route-cost", JObj().i("transaction", tx).i("connector", (long)c).num("cost_before", cb).num("cost_after", ca).raw("history", hist.done()).done()); break; } }
        }
        for (size_t c = 0; c < connsBefore && c < conns.size(); c++) if (!sameRoute(before[c], conns[c].ref->displayRoute())) { routeChanges++; }
        compareWithFresh("after-transaction", tx);
        // an immediately following idle transaction
        if (R.coin(0.3) && res.findings.empty()) {
            std::vector<Avoid::PolyLine> b2, r2; for (auto &c : conns) { b2.push_back(c.ref->displayRoute()); r2.push_back(c.ref->route()); }
            set_stage("idle.processTransaction"); router->processTransaction(); res.count("idle_transactions");
            for (size_t c = 0; c < conns.size(); c++) if (!sameRoute(b2[c], conns[c].ref->displayRoute()) || !sameRoute(r2[c], conns[c].ref->route())) { res.violate("idle-transaction-changed-route", JObj().i("transaction", tx).i("connector", (long)c).raw("before", routej(b2[c])).raw("after", routej(conns[c].ref->displayRoute())).raw("history", hist.done()).done()); break; }
        }
    }
    // F95: polyline obstacles keep the buffer they were created with, so every verdict of a polyline history is tagged once the parameter has changed
    if (!orth && bufChanged) for (auto &f : res.findings) f.key += "[polyline,shapeBufferDistance-changed-earlier-in-the-history]";
    res.count("route_comparisons", comparisons);
    res.nontrivial = routeChanges > 0;
    res.digest = D.h;
    res.gen = std::string(orth ? "orthogonal" : "polyline") + (transactions ? "/transactions" : "/immediate") + (pen > 0 ? "/penalty" : "/nopenalty") + (lenient ? "/endpoints-inside-shapes" : "") + (paramHistory ? "/parameter-changes" : "") + (noInvis ? "/no-invisibility-graph" : "");
    if (wantDesc || !res.findings.empty()) res.desc = JObj().str("routing", orth ? "orthogonal" : "polyline").b("transactions", transactions).num("segmentPenalty", pen).b("Router::InvisibilityGrph", !noInvis).raw("history", hist.done()).done();
}

// pinned regression: F1 minimal witness (stale route after deleting a shape that forced a detour)
static void case_regress(const Args &, long idx, bool wantDesc, CaseResult &res) {
    if (idx != 0) { res.inconclusive = "index-out-of-range"; return; }
    res.gen = "regress.F1-stale-after-delete"; res.digest = 0xF1F1F1; res.nontrivial = true;
    Avoid::Router *router = new Avoid::Router(Avoid::PolyLineRouting);
    router->setRoutingParameter(Avoid::segmentPenalty, 0);
    Avoid::Rectangle A(Avoid::Point(90, -50), Avoid::Point(110, 60)), C(Avoid::Point(60, -120), Avoid::Point(80, -10));
    new Avoid::ShapeRef(router, A); Avoid::ShapeRef *sc = new Avoid::ShapeRef(router, C);
    Avoid::ConnRef *cr = new Avoid::ConnRef(router, Avoid::ConnEnd(Avoid::Point(0, 0)), Avoid::ConnEnd(Avoid::Point(200, 0)));
    router->processTransaction();
    double before = polylineLength(cr->displayRoute());
    router->deleteShape(sc); router->processTransaction();
    double after = polylineLength(cr->displayRoute());
    Avoid::Router *fr = new Avoid::Router(Avoid::PolyLineRouting); fr->setRoutingParameter(Avoid::segmentPenalty, 0);
    new Avoid::ShapeRef(fr, A); Avoid::ConnRef *fc = new Avoid::ConnRef(fr, Avoid::ConnEnd(Avoid::Point(0, 0)), Avoid::ConnEnd(Avoid::Point(200, 0)));
    fr->processTransaction(); double fresh = polylineLength(fc->displayRoute());
    std::string d = JObj().str("scene", "A=[90,110]x[-50,60], C=[60,80]x[-120,-10], connector (0,0)->(200,0); delete C").num("length_before", before).num("length_after_delete", after).num("length_fresh", fresh).done();
    if (wantDesc) res.desc = d;
    if (after > fresh + 1e-6) res.violate("polyline:incremental-costlier-than-fresh", d);
    delete router; delete fr;
}

int main(int argc, char **argv) {
    return harness_main(argc, argv, "c06_incr", [](const Args &a, long idx, bool wantDesc, CaseResult &res) {
        if (a.mode == "history") case_history(a, idx, wantDesc, res);
        else if (a.mode == "regress") case_regress(a, idx, wantDesc, res);
        else res.inconclusive = "unknown-mode";
    });
}
