// C13: libtopology -- layout steps never pull an edge through a node.
// Pipeline of the library's own `beautify` test on random input: non-overlapping rectangles -> libavoid polyline routes (tight
// around corners) -> topology::Edges with EdgePoints at the routes' (shape, corner) ids -> ConstrainedFDLayout + ColaTopologyAddon.
// The monitor runs inside the TestConvergence callback (every iteration) and after the layout.
#include "common.h"
#include <valarray>
#include "libvpsc/rectangle.h"
#include "libcola/cola.h"
#include "libtopology/topology_graph.h"
#include "libtopology/topology_constraints.h"
#include "libtopology/cola_topology_addon.h"
#include "libavoid/libavoid.h"

using namespace vf;

static bool segHitsRect(double x1, double y1, double x2, double y2, const vpsc::Rectangle *r, double eps) {
    double X0 = r->getMinX() + eps, X1 = r->getMaxX() - eps, Y0 = r->getMinY() + eps, Y1 = r->getMaxY() - eps; if (X0 >= X1 || Y0 >= Y1) return false;
    double t0 = 0, t1 = 1, dx = x2 - x1, dy = y2 - y1; double p[4] = {-dx, dx, -dy, dy}, q[4] = {x1 - X0, X1 - x1, y1 - Y0, Y1 - y1};
    for (int i = 0; i < 4; i++) { if (p[i] == 0) { if (q[i] <= 0) return false; } else { double t = q[i] / p[i]; if (p[i] < 0) { if (t > t1) return false; if (t > t0) t0 = t; } else { if (t < t0) return false; if (t < t1) t1 = t; } } }
    return t1 - t0 > 1e-9;
}

struct Mon : public cola::TestConvergence {
    topology::Nodes *nodes; topology::Edges *routes; CaseResult *res; std::string *desc;
    long iters = 0; bool bendCountChanged = false; bool stop = false; std::string keySuffix;
    std::vector<size_t> initialPoints; std::vector<std::pair<unsigned, unsigned>> endNodes;
    std::vector<std::vector<int>> parityPrev; std::vector<std::vector<int>> relPrev;   // [edge][node]
    std::string prevState;   // geometry at the previous monitored iteration (for witnesses)
    Mon(double tol, unsigned maxit) : TestConvergence(tol, maxit) {}
    std::vector<std::pair<double, double>> pathOf(topology::Edge *e, std::vector<topology::EdgePoint *> *pts = nullptr) {
        std::vector<std::pair<double, double>> P; topology::Segment *s = e->firstSegment;
        P.push_back({s->start->posX(), s->start->posY()}); if (pts) pts->push_back(s->start);
        for (;;) { P.push_back({s->end->posX(), s->end->posY()}); if (pts) pts->push_back(s->end); if (s == e->lastSegment) break; s = s->end->outSegment; if (!s) break; }
        return P;
    }
    void snapshotInitial() {
        for (auto e : *routes) { std::vector<topology::EdgePoint *> pts; pathOf(e, &pts); initialPoints.push_back(pts.size()); endNodes.push_back({pts.front()->node->id, pts.back()->node->id}); }
    }
    std::string stateJson() {
        JArr nj; for (auto n : *nodes) nj.raw(JArr().num(n->rect->getMinX()).num(n->rect->getMinY()).num(n->rect->getMaxX()).num(n->rect->getMaxY()).done());
        JArr ej; for (auto e : *routes) { JArr pj; for (auto &p : pathOf(e)) pj.raw(JArr().num(p.first).num(p.second).done()); ej.raw(pj.done()); }
        return JObj().i("iteration", iters).raw("node_rects", nj.done()).raw("edge_paths", ej.done()).done();
    }
    void check() {
        if (stop) return;
        size_t ei = 0;
        bool first = parityPrev.empty();
        if (first) { parityPrev.assign(routes->size(), std::vector<int>(nodes->size(), 0)); relPrev.assign(routes->size(), std::vector<int>(nodes->size(), 0)); }
        for (auto e : *routes) {
            std::vector<topology::EdgePoint *> pts; auto P = pathOf(e, &pts);
            res->count("edge_states_checked");
            if (pts.size() != initialPoints[ei]) bendCountChanged = true;
            // (3) ends still on the original nodes
            if (pts.front()->node->id != endNodes[ei].first || pts.back()->node->id != endNodes[ei].second) { res->violate("edge-end-moved-to-another-node" + keySuffix, JObj().i("edge", (long)ei).raw("state", stateJson()).raw("case", *desc).done()); stop = true; return; }
            // (1) no segment through the interior of a node other than the end nodes and the nodes its own end points sit on
            for (size_t i = 1; i < P.size(); i++) for (auto n : *nodes) {
                if (n->id == endNodes[ei].first || n->id == endNodes[ei].second) continue;
                if (n == pts[i - 1]->node || n == pts[i]->node) continue;
                if (segHitsRect(P[i - 1].first, P[i - 1].second, P[i].first, P[i].second, n->rect, 1e-6)) { res->violate("edge-segment-through-node-interior" + keySuffix, JObj().i("edge", (long)ei).i("segment", (long)i).i("node", n->id).raw("state", stateJson()).raw("case", *desc).done()); stop = true; return; }
            }
            // (4) interior points sit on corners of their node and the path turns around that node (node centre on the inner side of the turn)
            for (size_t i = 1; i + 1 < pts.size(); i++) {
                const vpsc::Rectangle *r = pts[i]->node->rect; double x = P[i].first, y = P[i].second;
                bool corner = (std::fabs(x - r->getMinX()) < 1e-6 || std::fabs(x - r->getMaxX()) < 1e-6) && (std::fabs(y - r->getMinY()) < 1e-6 || std::fabs(y - r->getMaxY()) < 1e-6);
                if (!corner) { res->violate("bend-point-not-on-a-corner-of-its-node" + keySuffix, JObj().i("edge", (long)ei).i("point", (long)i).raw("state", stateJson()).raw("case", *desc).done()); stop = true; return; }
                double ax = P[i - 1].first, ay = P[i - 1].second, bx = P[i + 1].first, by = P[i + 1].second;
                double turn = (x - ax) * (by - y) - (y - ay) * (bx - x);                       // >0 left turn
                double side = (x - ax) * (r->getCentreY() - ay) - (y - ay) * (r->getCentreX() - ax);   // node centre relative to the incoming segment
                double side2 = (bx - x) * (r->getCentreY() - y) - (by - y) * (r->getCentreX() - x);   // ... and to the outgoing one
                res->count("bends_checked");
                double lin = std::hypot(x - ax, y - ay), lout = std::hypot(bx - x, by - y);
                double sT = (lin > 0 && lout > 0) ? turn / (lin * lout) : 0, dIn = lin > 0 ? side / lin : 0, dOut = lout > 0 ? side2 / lout : 0, sg = sT > 0 ? 1 : -1;
                // a turn of less than 1e-6 rad is straight; the centre must not lie more than 1e-6 on the outer side of either segment
                if (std::fabs(sT) > 1e-6 && (sg * dIn < -1e-6 || sg * dOut < -1e-6)) { res->violate("bend-does-not-turn-around-its-node" + keySuffix, JObj().i("edge", (long)ei).i("point", (long)i).num("turn", turn).num("side_in", side).num("side_out", side2).raw("state", stateJson()).raw("case", *desc).done()); stop = true; return; }
            }
            // (5) side signature per step: parity of crossings of the rightward ray from each foreign node centre with the closed curve
            //     path + upward vertical rays at both path ends; it may change only when an end passes the node's x
            for (size_t ni = 0; ni < nodes->size(); ni++) {
                topology::Node *n = (*nodes)[ni]; if (n->id == endNodes[ei].first || n->id == endNodes[ei].second) continue;
                bool onPath = false; for (auto p : pts) if (p->node == n) onPath = true; if (onPath) { parityPrev[ei][ni] = -1; continue; }
                double cx = n->rect->getCentreX(), cy = n->rect->getCentreY(); int par = 0;
                for (size_t i = 1; i < P.size(); i++) { double y1 = P[i - 1].second, y2 = P[i].second, x1 = P[i - 1].first, x2 = P[i].first; if ((y1 > cy) != (y2 > cy)) { double xx = x1 + (cy - y1) * (x2 - x1) / (y2 - y1); if (xx > cx) par ^= 1; } }
                for (int q = 0; q < 2; q++) { double ex = q ? P.back().first : P.front().first, ey = q ? P.back().second : P.front().second; if (ex > cx && ey <= cy) par ^= 1; }   // same half-open rule as for the segments (the ray is the segment (ex,ey)-(ex,+inf))
                int rel = (P.front().first > cx ? 1 : 0) | (P.back().first > cx ? 2 : 0);
                if (!first && parityPrev[ei][ni] >= 0 && rel == relPrev[ei][ni] && par != parityPrev[ei][ni]) { res->violate("node-changed-side-of-an-edge-in-one-step" + keySuffix, JObj().i("edge", (long)ei).i("node", n->id).raw("previous_state", prevState.empty() ? "null" : prevState).raw("state", stateJson()).raw("case", *desc).done()); stop = true; return; }
                parityPrev[ei][ni] = par; relPrev[ei][ni] = rel; res->count("side_signatures_checked");
            }
            ei++;
        }
        prevState = stateJson();
        // (2) node rectangles do not overlap
        for (size_t i = 0; i < nodes->size(); i++) for (size_t j = i + 1; j < nodes->size(); j++) {
            vpsc::Rectangle *a = (*nodes)[i]->rect, *b = (*nodes)[j]->rect; double ox = std::min(a->getMaxX(), b->getMaxX()) - std::max(a->getMinX(), b->getMinX()), oy = std::min(a->getMaxY(), b->getMaxY()) - std::max(a->getMinY(), b->getMinY());
            if (ox > 1e-6 && oy > 1e-6) { res->violate("node-rectangles-overlap" + keySuffix, JObj().i("i", (long)i).i("j", (long)j).num("overlap_x", ox).num("overlap_y", oy).raw("state", stateJson()).raw("case", *desc).done()); stop = true; return; }
        }
    }
    bool operator()(const double new_stress, std::valarray<double> &X, std::valarray<double> &Y) { iters++; check(); return TestConvergence::operator()(new_stress, X, Y); }
};

// libavoid polyline routes (tight around shape corners) -> topology::Edges whose interior EdgePoints carry the (shape, corner) of each bend
static bool buildRoutes(vpsc::Rectangles &rs, std::vector<cola::Edge> &es, topology::Nodes &tn, topology::Edges &routes, double ideal) {
    int n = (int)rs.size(); bool anyBend = false;
    Avoid::Router *router = new Avoid::Router(Avoid::PolyLineRouting); router->setRoutingParameter(Avoid::segmentPenalty, 0);
    for (int i = 0; i < n; i++) { Avoid::Rectangle sr(Avoid::Point(rs[i]->getMinX(), rs[i]->getMinY()), Avoid::Point(rs[i]->getMaxX(), rs[i]->getMaxY())); new Avoid::ShapeRef(router, sr, (unsigned)i + 1); }
    std::vector<Avoid::ConnRef *> crs; for (size_t i = 0; i < es.size(); i++) { Avoid::Point s(rs[es[i].first]->getCentreX(), rs[es[i].first]->getCentreY()), d(rs[es[i].second]->getCentreX(), rs[es[i].second]->getCentreY()); crs.push_back(new Avoid::ConnRef(router, s, d, (unsigned)(i + n + 1))); }
    set_stage("libavoid.processTransaction"); router->processTransaction();
    for (size_t i = 0; i < es.size(); i++) {
        const Avoid::Polygon &route = crs[i]->route(); topology::EdgePoints eps; eps.push_back(new topology::EdgePoint(tn[es[i].first], topology::EdgePoint::CENTRE));
        for (size_t j = 1; j + 1 < route.size(); j++) { const Avoid::Point &p = route.ps[j]; topology::EdgePoint::RectIntersect ri; switch (p.vn) { case 0: ri = topology::EdgePoint::BR; break; case 1: ri = topology::EdgePoint::TR; break; case 2: ri = topology::EdgePoint::TL; break; case 3: ri = topology::EdgePoint::BL; break; default: ri = topology::EdgePoint::CENTRE; } if (p.id >= 1 && p.id <= (unsigned)n) { eps.push_back(new topology::EdgePoint(tn[p.id - 1], ri)); anyBend = true; } }
        eps.push_back(new topology::EdgePoint(tn[es[i].second], topology::EdgePoint::CENTRE)); routes.push_back(new topology::Edge((unsigned)i, ideal, eps));
    }
    delete router;
    return anyBend;
}

static void case_pipeline(const Args &a, long idx, bool wantDesc, CaseResult &res) {
    Rng R(mix(mix(a.seed, 0xC13), (uint64_t)idx));
    int want = (int)R.ri(3, 12); vpsc::Rectangles rs; int tries = 0; JArr rj;
    double gap = R.coin(0.3) ? 1 : 4;
    while ((int)rs.size() < want && tries++ < 500) {
        double w = R.rd(10, 40), h = R.rd(10, 40), x = R.rd(0, 300), y = R.rd(0, 300); bool ok = true;
        for (auto r : rs) if (!(x > r->getMaxX() + gap || x + w < r->getMinX() - gap || y > r->getMaxY() + gap || y + h < r->getMinY() - gap)) { ok = false; break; }
        if (ok) { rs.push_back(new vpsc::Rectangle(x, x + w, y, y + h)); rj.raw(JArr().num(x).num(y).num(w).num(h).done()); }
    }
    int n = (int)rs.size(); if (n < 3) { for (auto r : rs) delete r; res.inconclusive = "too-few-nodes"; return; }
    std::vector<cola::Edge> es; for (int i = 1; i < n; i++) es.push_back(cola::Edge((unsigned)R.ri(0, i - 1), (unsigned)i));
    int extra = (int)R.ri(0, n); for (int e = 0; e < extra; e++) { unsigned u = (unsigned)R.ri(0, n - 1), v = (unsigned)R.ri(0, n - 1); if (u != v) es.push_back(cola::Edge(u, v)); }
    JArr ej; for (auto &e : es) ej.raw(JArr().i(e.first).i(e.second).done());
    double ideal = R.rd(40, 90); unsigned maxit = (unsigned)R.ri(5, 120);
    // optional locks (nodes dragged to targets across the drawing) and resizes applied before the first iteration
    cola::Locks locks; cola::Resizes resizes; JArr lj, zj;
    if (R.coin(0.4)) { int k = (int)R.ri(1, 2); for (int q = 0; q < k; q++) { unsigned id = (unsigned)R.ri(0, n - 1); double x = R.rd(0, 300), y = R.rd(0, 300); locks.push_back(cola::Lock(id, x, y)); lj.raw(JArr().i(id).num(x).num(y).done()); } }
    if (R.coin(0.2)) { unsigned id = (unsigned)R.ri(0, n - 1); double w = rs[id]->width() * R.rd(0.6, 1.6), h = rs[id]->height() * R.rd(0.6, 1.6); resizes.push_back(cola::Resize(id, rs[id]->getMinX(), rs[id]->getMinY(), w, h)); zj.raw(JArr().i(id).num(w).num(h).done()); }
    std::string desc = JObj().raw("rects_x_y_w_h", rj.done()).raw("edges", ej.done()).num("idealLength", ideal).i("maxIterations", maxit).raw("locks_id_x_y", lj.done()).raw("resizes_id_w_h", zj.done()).done();
    Digest D; D.s(desc); res.digest = D.h; res.gen = std::string(locks.empty() ? "free" : "locks") + (resizes.empty() ? "" : "+resize");
    if (wantDesc) res.desc = desc;

    topology::Nodes tn; for (int i = 0; i < n; i++) tn.push_back(new topology::Node((unsigned)i, rs[i]));
    topology::Edges routes; bool anyBend = buildRoutes(rs, es, tn, routes, ideal);
    if (anyBend) res.count("cases_with_initial_bends");
    Mon mon(0.0001, maxit); mon.nodes = &tn; mon.routes = &routes; mon.res = &res; mon.desc = &desc; mon.snapshotInitial();
    mon.check();   // iteration 0
    if (!res.findings.empty()) { res.findings.clear(); res.inconclusive = "initial-state-already-violates (generator)"; for (auto e : routes) delete e; for (auto nd : tn) delete nd; for (auto r : rs) delete r; return; }
    int efd = dup(2); int nul = open("/dev/null", O_WRONLY); dup2(nul, 2); close(nul);
    struct EG { int fd; ~EG() { dup2(fd, 2); close(fd); } } eg{efd};
    {
        cola::PreIteration pre(locks, resizes);
        cola::ConstrainedFDLayout alg(rs, es, ideal, cola::StandardEdgeLengths, &mon, (locks.empty() && resizes.empty()) ? nullptr : &pre);
        topology::ColaTopologyAddon topo(tn, routes); alg.setTopology(&topo);
        set_stage("ConstrainedFDLayout.run(topology)"); alg.run();
        set_stage("final-check"); mon.check();
        // the addon owns the topology nodes and routes from here on (ColaTopologyAddon::freeAssociatedObjects)
        set_stage("freeAssociatedObjects"); cola::TopologyAddonInterface *cur = alg.getTopology();   // a clone the caller owns
        cur->freeAssociatedObjects(); delete cur;
    }
    res.count("iterations_monitored", mon.iters);
    res.nontrivial = mon.bendCountChanged;
    if (mon.bendCountChanged) res.count("cases_where_bends_were_created_or_removed");
    for (auto r : rs) delete r;
}

// Direct use of topology::TopologyConstraints as in the library's simple_bend/nodedragging tests: per pass one instance in one axis,
// desired positions set on the node variables, solve() repeated until it reports no further topology event; an instance may be reused
// for further goals (simple_bend does that).  The state is judged after every solve() return.
static void case_direct(const Args &a, long idx, bool wantDesc, CaseResult &res) {
    Rng R(mix(mix(a.seed, 0xD13), (uint64_t)idx));
    bool grid = R.coin(0.5); int want = (int)R.ri(3, 10); vpsc::Rectangles rs; int tries = 0; JArr rj;
    double gap = grid ? (R.coin(0.5) ? 0 : 5) : (R.coin(0.3) ? 1 : 4); double span = grid ? 160 : 300;
    while ((int)rs.size() < want && tries++ < 500) {
        double w, h, x, y;
        if (grid) { w = 5 * R.ri(2, 8); h = 5 * R.ri(2, 8); x = 5 * R.ri(0, (long)span / 5); y = 5 * R.ri(0, (long)span / 5); }
        else { w = R.rd(10, 40); h = R.rd(10, 40); x = R.rd(0, span); y = R.rd(0, span); }
        bool ok = true;
        for (auto r : rs) if (!(x >= r->getMaxX() + gap || x + w <= r->getMinX() - gap || y >= r->getMaxY() + gap || y + h <= r->getMinY() - gap)) { ok = false; break; }
        if (ok) { rs.push_back(new vpsc::Rectangle(x, x + w, y, y + h)); rj.raw(JArr().num(x).num(y).num(w).num(h).done()); }
    }
    int n = (int)rs.size(); if (n < 3) { for (auto r : rs) delete r; res.inconclusive = "too-few-nodes"; return; }
    std::vector<cola::Edge> es; int ne = (int)R.ri(1, std::max(1, n / 2 + 1));
    for (int e = 0; e < ne; e++) { unsigned u = (unsigned)R.ri(0, n - 1), v = (unsigned)R.ri(0, n - 1); if (u != v) es.push_back(cola::Edge(u, v)); }
    if (es.empty()) es.push_back(cola::Edge(0, 1));
    JArr ej; for (auto &e : es) ej.raw(JArr().i(e.first).i(e.second).done());
    int passes = (int)R.ri(1, 6); bool reuse = R.coin(0.5); int firstDim = (int)R.ri(0, 1);
    // goals: per (pass, goal) a list of (node, displacement, weight)
    struct Goal { std::vector<unsigned> id; std::vector<double> d; std::vector<double> w; };
    std::vector<std::vector<Goal>> plan; JArr pj;
    for (int p = 0; p < passes; p++) { int goals = reuse ? (int)R.ri(1, 3) : 1; std::vector<Goal> gs; JArr gj;
        for (int g = 0; g < goals; g++) { Goal G; JArr one; int k = (int)R.ri(1, std::max(1, n / 2)); for (int q = 0; q < k; q++) { unsigned id = (unsigned)R.ri(0, n - 1); double d = grid ? 5.0 * R.ri(-20, 20) : R.rd(-100, 100); double w = R.coin(0.5) ? 10000 : 1; G.id.push_back(id); G.d.push_back(d); G.w.push_back(w); one.raw(JArr().i(id).num(d).num(w).done()); } gs.push_back(G); gj.raw(one.done()); }
        plan.push_back(gs); pj.raw(gj.done()); }
    // resizes (topology::applyResizes, what ColaTopologyAddon::handleResizes calls): 1-2 nodes get a new box after pass number resizeAfter
    struct RZ { unsigned id; double fx, fy; bool keepCentre; }; std::vector<RZ> rz; int resizeAfter = -1; JArr zj;
    if (R.coin(0.4)) { resizeAfter = (int)R.ri(0, passes - 1); int k = (int)R.ri(1, 2); std::set<unsigned> used; for (int q = 0; q < k; q++) { unsigned id = (unsigned)R.ri(0, n - 1); if (!used.insert(id).second) continue; RZ z{id, grid ? 0.5 * R.ri(1, 4) : R.rd(0.5, 2.0), grid ? 0.5 * R.ri(1, 4) : R.rd(0.5, 2.0), R.coin()}; rz.push_back(z); zj.raw(JObj().i("node", id).num("width_factor", z.fx).num("height_factor", z.fy).b("keep_centre", z.keepCentre).done()); } }
    std::string desc = JObj().b("grid", grid).raw("rects_x_y_w_h", rj.done()).raw("edges", ej.done()).i("first_dim", firstDim).b("instance_reused_for_several_goals", reuse).raw("passes_goals_node_move_weight", pj.done()).i("resize_after_pass", resizeAfter).raw("resizes", zj.done()).done();
    Digest D; D.s(desc); res.digest = D.h; res.gen = std::string(grid ? (gap == 0 ? "grid-touching" : "grid-gap5") : "real") + (reuse ? "/reused-instance" : "/one-goal-per-instance");
    if (wantDesc) res.desc = desc;
    topology::Nodes tn; for (int i = 0; i < n; i++) tn.push_back(new topology::Node((unsigned)i, rs[i]));
    topology::Edges routes; bool anyBend = buildRoutes(rs, es, tn, routes, 100);
    if (anyBend) res.count("cases_with_initial_bends");
    Mon mon(0.0001, 100); mon.nodes = &tn; mon.routes = &routes; mon.res = &res; mon.desc = &desc; mon.keySuffix = std::string("[direct:") + (grid ? "grid" : "real") + (reuse ? ":reused-instance]" : ":one-goal]"); mon.snapshotInitial();
    mon.check();
    if (!res.findings.empty()) { res.findings.clear(); res.inconclusive = "initial-state-already-violates (generator)"; for (auto e : routes) delete e; for (auto nd : tn) delete nd; for (auto r : rs) delete r; return; }
    int efd = dup(2); int nul = open("/dev/null", O_WRONLY); dup2(nul, 2); close(nul);
    struct EG { int fd; ~EG() { dup2(fd, 2); close(fd); } } eg{efd};
    vpsc::Rectangle::setXBorder(0); vpsc::Rectangle::setYBorder(0);
    long solves = 0; bool capped = false;
    for (int p = 0; p < passes && !mon.stop; p++) {
        vpsc::Dim dim = (vpsc::Dim)((firstDim + p) & 1);
        vpsc::Variables vs; vpsc::Constraints cs;
        for (int i = 0; i < n; i++) vs.push_back(new vpsc::Variable(i, rs[i]->getCentreD(dim), 1));
        topology::setNodeVariables(tn, vs);
        {
            set_stage("TopologyConstraints()");
            topology::TopologyConstraints t(dim, tn, routes, nullptr, vs, cs);
            for (auto &G : plan[p]) {
                for (int i = 0; i < n; i++) { vs[i]->desiredPosition = rs[i]->getCentreD(dim); vs[i]->weight = 1; }
                for (size_t q = 0; q < G.id.size(); q++) { vs[G.id[q]]->desiredPosition = rs[G.id[q]]->getCentreD(dim) + G.d[q]; vs[G.id[q]]->weight = G.w[q]; }
                int breaker = 100; bool interrupted;
                do { set_stage("TopologyConstraints.solve"); interrupted = t.solve(); solves++; mon.iters++; set_stage("check-after-solve"); mon.check(); } while (interrupted && --breaker > 0 && !mon.stop);
                if (interrupted && breaker == 0) capped = true;
                if (mon.stop) break;
            }
        }
        for (auto c : cs) delete c; for (auto v : vs) delete v;
        if (p == resizeAfter && !mon.stop && !rz.empty()) {
            vpsc::Variables xvs, yvs; vpsc::Constraints xcs, ycs; std::vector<vpsc::Rectangle *> targets; topology::ResizeMap rm;
            for (int i = 0; i < n; i++) { xvs.push_back(new vpsc::Variable(i, rs[i]->getCentreX(), 1)); yvs.push_back(new vpsc::Variable(i, rs[i]->getCentreY(), 1)); }
            for (auto &z : rz) { const vpsc::Rectangle *r = rs[z.id]; double w = r->width() * z.fx, h = r->height() * z.fy, x = z.keepCentre ? r->getCentreX() - w / 2 : r->getMinX(), y = z.keepCentre ? r->getCentreY() - h / 2 : r->getMinY();
                vpsc::Rectangle *t = new vpsc::Rectangle(x, x + w, y, y + h); targets.push_back(t); rm.insert(std::make_pair(z.id, topology::ResizeInfo(tn[z.id], t))); }
            set_stage("topology::applyResizes"); topology::applyResizes(tn, routes, nullptr, rm, xvs, xcs, yvs, ycs); mon.iters++; res.count("resizes_applied", (long)rz.size());
            set_stage("check-after-resize"); std::string ks = mon.keySuffix; mon.keySuffix = ks.substr(0, ks.size() - 1) + ",after-applyResizes]"; mon.check(); mon.keySuffix = ks;
            for (auto v : xvs) delete v; for (auto v : yvs) delete v; for (auto c : xcs) delete c; for (auto c : ycs) delete c; for (auto t : targets) delete t;
        }
    }
    for (auto e : routes) delete e; for (auto nd : tn) delete nd;
    res.count("direct_cases_judged"); res.count(std::string("direct_cases_") + (grid ? "grid" : "real") + (reuse ? "_reused_instance" : "_one_goal")); res.count("solve_calls_monitored", solves); if (capped) res.count("goals_cut_off_after_100_solves");
    res.nontrivial = mon.bendCountChanged;
    if (mon.bendCountChanged) res.count("cases_where_bends_were_created_or_removed");
    for (auto r : rs) delete r;
}

int main(int argc, char **argv) {
    return harness_main(argc, argv, "c13_topology", [](const Args &a, long idx, bool wantDesc, CaseResult &res) {
        if (a.mode == "pipeline") case_pipeline(a, idx, wantDesc, res);
        else if (a.mode == "direct") case_direct(a, idx, wantDesc, res);
        else res.inconclusive = "unknown-mode";
    });
}
