// Shared helpers for the libdialect monitors (C14, C18, C19): TGLF separation-constraint parser and an independent
// interpreter of separation constraints written from the TGLF documentation in libdialect/io.h.
#ifndef VERIF_DIALECT_COMMON_H
#define VERIF_DIALECT_COMMON_H
#include "common.h"
#include <sstream>
#include <set>
#include "libdialect/commontypes.h"
#include "libdialect/graphs.h"
#include "libdialect/constraints.h"
#include "libdialect/io.h"

namespace dc {
using namespace vf;
struct Box { double cx, cy, w, h; };
struct SepLine { unsigned a, b; char gapType, dir; bool eq; double gap; std::string text; };
struct TglfDoc { std::map<unsigned, Box> nodes; std::vector<std::pair<unsigned, unsigned>> links; std::vector<std::vector<double>> linkPoints; std::vector<SepLine> sepcos; };

inline bool parseTglf(const std::string &t, TglfDoc &doc) {
    std::istringstream in(t); std::string line; int section = 0;
    while (std::getline(in, line)) {
        size_t c = line.find("//"); if (c != std::string::npos) line = line.substr(0, c);
        bool blank = true; for (char ch : line) if (!isspace((unsigned char)ch)) blank = false; if (blank) continue;
        if (line.find('#') != std::string::npos) { section++; continue; }
        std::istringstream ls(line);
        if (section == 0) { unsigned id; Box b; if (!(ls >> id >> b.cx >> b.cy >> b.w >> b.h)) return false; doc.nodes[id] = b; }
        else if (section == 1) { unsigned u, v; if (!(ls >> u >> v)) return false; doc.links.push_back({u, v}); std::vector<double> pts; double x; while (ls >> x) pts.push_back(x); doc.linkPoints.push_back(pts); }
        else { SepLine s; std::string g, d, r; if (!(ls >> s.a >> s.b >> g >> d >> r >> s.gap)) return false; s.gapType = g[0]; s.dir = d[0]; s.eq = r == "=="; s.text = line; doc.sepcos.push_back(s); }
    }
    return true;
}
// violation amount of one separation constraint for the placement (0 when satisfied): documented meaning --
//   C: gap between centres; B: gap between the facing boundaries; N/S/E/W: separation plus alignment in the other coordinate;
//   U/D/L/R: separation only; X = R, Y = D;  '>=' minimum gap, '==' exact gap.  East/right: b lies towards +x of a; south/down: +y.
inline double sepViolation(const SepLine &s, const Box &A, const Box &B, bool *onlyAlignment = nullptr) {
    char d = s.dir; if (d == 'X') d = 'R'; if (d == 'Y') d = 'D';
    bool horiz = d == 'E' || d == 'W' || d == 'L' || d == 'R';
    bool positive = d == 'E' || d == 'R' || d == 'S' || d == 'D';
    double pa = horiz ? A.cx : A.cy, pb = horiz ? B.cx : B.cy, ha = horiz ? A.w / 2 : A.h / 2, hb = horiz ? B.w / 2 : B.h / 2;
    double actual = positive ? pb - pa : pa - pb; if (s.gapType == 'B') actual -= ha + hb;
    double v = s.eq ? std::fabs(actual - s.gap) : s.gap - actual;
    bool cardinal = d == 'E' || d == 'W' || d == 'N' || d == 'S';
    if (onlyAlignment) *onlyAlignment = false;
    if (cardinal) { double off = horiz ? std::fabs(A.cy - B.cy) : std::fabs(A.cx - B.cx); if (onlyAlignment && off > v) *onlyAlignment = v <= 1e-3; v = std::max(v, off); }
    return v;
}
inline std::string sepcosSection(const std::string &tglf) { size_t p = tglf.find('#'); if (p == std::string::npos) return ""; p = tglf.find('#', p + 1); if (p == std::string::npos) return ""; return tglf.substr(p + 1); }
// random connected simple graphs of several shapes (shared by the C14 and C19 monitors)
inline void gen_graph(Rng &R, int &n, std::set<std::pair<int, int>> &E, std::string &kind) {
    int k = (int)R.ri(0, 6); static const char *names[] = {"random-connected", "tree", "cycle", "ladder", "core-with-trees", "hub", "dense-core"};
    kind = names[k];
    n = R.coin(0.75) ? (int)R.ri(1, 16) : (int)R.ri(17, 60);
    auto add = [&](int u, int v) { if (u == v) return; if (u > v) std::swap(u, v); E.insert({u, v}); };
    if (k == 0) { for (int i = 1; i < n; i++) add((int)R.ri(0, i - 1), i); int extra = (int)R.ri(0, n / 2 + 1); for (int e = 0; e < extra; e++) add((int)R.ri(0, n - 1), (int)R.ri(0, n - 1)); }
    else if (k == 1) { for (int i = 1; i < n; i++) add((int)R.ri(0, i - 1), i); }
    else if (k == 2) { n = std::max(n, 3); for (int i = 0; i < n; i++) add(i, (i + 1) % n); }
    else if (k == 3) { n = std::max(4, n / 2 * 2); int h = n / 2; for (int i = 0; i < h; i++) { add(i, i + h); if (i + 1 < h) { add(i, i + 1); add(i + h, i + 1 + h); } } }
    else if (k == 4) { int core = std::max(3, std::min(n, (int)R.ri(3, 8))); n = std::max(n, core); for (int i = 0; i < core; i++) add(i, (i + 1) % core); if (core > 3 && R.coin()) add(0, core / 2); for (int i = core; i < n; i++) add((int)R.ri(0, i - 1), i); }
    else if (k == 5) { n = std::max(n, 4); int deg = std::min(n - 1, (int)R.ri(3, 12)); for (int i = 1; i <= deg; i++) add(0, i); for (int i = deg + 1; i < n; i++) add((int)R.ri(0, i - 1), i); if (deg >= 3 && R.coin()) { add(1, 2); } }
    else { n = std::min(std::max(n, 4), 12); for (int i = 1; i < n; i++) add((int)R.ri(0, i - 1), i); int extra = (int)R.ri(n, 2 * n); for (int e = 0; e < extra; e++) add((int)R.ri(0, n - 1), (int)R.ri(0, n - 1)); }
}

} // namespace dc
#endif
