// Shared scene model, exact geometry and reference routers for the libavoid monitors.
// Nothing here calls into libavoid's geometry or search code: the oracles are
// written from the definitions (convex clipping with integer cross products,
// Dijkstra on my own visibility graph / Hanan grid).
#ifndef VERIF_AVOID_SCENE_H
#define VERIF_AVOID_SCENE_H
#include "common.h"
#include <queue>
#include "libavoid/libavoid.h"

namespace av {
using namespace vf;
typedef long long ll;
typedef __int128 i128;
struct IP { ll x, y; bool operator==(const IP &o) const { return x == o.x && y == o.y; } bool operator!=(const IP &o) const { return !(*this == o); } };
struct DP { double x, y; };
typedef std::vector<IP> IPoly;   // convex, vertices ordered so that cross(prev,cur,next) > 0 (libavoid's convention)

inline i128 cross(IP a, IP b, IP c) { return (i128)(b.x - a.x) * (c.y - a.y) - (i128)(c.x - a.x) * (b.y - a.y); }
inline long double crossd(DP a, DP b, DP c) { return ((long double)b.x - a.x) * ((long double)c.y - a.y) - ((long double)c.x - a.x) * ((long double)b.y - a.y); }
inline DP dp(IP p) { return DP{(double)p.x, (double)p.y}; }
inline std::string ipj(IP p) { return JArr().i(p.x).i(p.y).done(); }
inline std::string dpj(DP p) { return JArr().num(p.x).num(p.y).done(); }
inline std::string polyj(const IPoly &pl) { JArr a; for (auto &p : pl) a.raw(ipj(p)); return a.done(); }

// Does the open segment ab pass through the open interior of convex polygon pl?  exact.
inline bool segHitsInterior(IP a, IP b, const IPoly &pl) {
    i128 lon = 0, lod = 1, hin = 1, hid = 1;   // open parameter interval (lo,hi) in [0,1]
    size_t n = pl.size();
    for (size_t i = 0; i < n; i++) {
        IP p = pl[i], q = pl[(i + 1) % n];
        i128 fa = cross(p, q, a), fb = cross(p, q, b);
        if (fa <= 0 && fb <= 0) return false;
        if (fa > 0 && fb > 0) continue;
        i128 num = fa, den = fa - fb; if (den < 0) { num = -num; den = -den; }
        if (fa <= 0) { if (num * lod > lon * den) { lon = num; lod = den; } }
        else { if (num * hid < hin * den) { hin = num; hid = den; } }
    }
    return lon * hid < hin * lod;
}
// Same for double endpoints against the polygon shrunk by eps (distance): true only if the segment is
// more than eps deep inside somewhere.  Used for nudged / buffered routes whose coordinates are not integers.
inline bool segHitsInteriorEps(DP a, DP b, const IPoly &pl, double eps) {
    long double lo = 0, hi = 1; size_t n = pl.size();
    for (size_t i = 0; i < n; i++) {
        DP p = dp(pl[i]), q = dp(pl[(i + 1) % n]);
        long double len = std::sqrt(((long double)q.x - p.x) * ((long double)q.x - p.x) + ((long double)q.y - p.y) * ((long double)q.y - p.y));
        long double fa = crossd(p, q, a) - eps * len, fb = crossd(p, q, b) - eps * len;
        if (fa <= 0 && fb <= 0) return false;
        if (fa > 0 && fb > 0) continue;
        long double t = fa / (fa - fb);
        if (fa <= 0) lo = std::max(lo, t); else hi = std::min(hi, t);
    }
    return lo < hi;
}
// does segment pq PROPERLY cross (interior point of both) some edge of the polygon?  A segment can pass through a convex polygon's
// interior without doing so only by entering and leaving through vertices / having its own end points on the boundary.
inline bool properlyCrossesAnEdge(DP p, DP q, const IPoly &pl) {
    for (size_t e = 0; e < pl.size(); e++) {
        DP u = dp(pl[e]), v = dp(pl[(e + 1) % pl.size()]);
        long double a1 = crossd(p, q, u), a2 = crossd(p, q, v), b1 = crossd(u, v, p), b2 = crossd(u, v, q);
        if (((a1 > 0 && a2 < 0) || (a1 < 0 && a2 > 0)) && ((b1 > 0 && b2 < 0) || (b1 < 0 && b2 > 0))) return true;
    }
    return false;
}
inline bool ptInClosed(IP q, const IPoly &pl) { for (size_t i = 0; i < pl.size(); i++) if (cross(pl[i], pl[(i + 1) % pl.size()], q) < 0) return false; return true; }
inline bool ptStrictInside(IP q, const IPoly &pl) { for (size_t i = 0; i < pl.size(); i++) if (cross(pl[i], pl[(i + 1) % pl.size()], q) <= 0) return false; return true; }
inline bool ptInClosedD(DP q, const IPoly &pl, double eps) {   // inside or within eps of the polygon
    for (size_t i = 0; i < pl.size(); i++) { DP p = dp(pl[i]), r = dp(pl[(i + 1) % pl.size()]); long double len = std::sqrt(((long double)r.x - p.x) * ((long double)r.x - p.x) + ((long double)r.y - p.y) * ((long double)r.y - p.y)); if (crossd(p, r, q) < -eps * len) return false; }
    return true;
}
inline void bbox(const IPoly &pl, ll &x0, ll &y0, ll &x1, ll &y1) { x0 = y0 = (ll)4e18; x1 = y1 = -(ll)4e18; for (auto &p : pl) { x0 = std::min(x0, p.x); x1 = std::max(x1, p.x); y0 = std::min(y0, p.y); y1 = std::max(y1, p.y); } }
inline IPoly rectPoly(ll x0, ll y0, ll x1, ll y1) { return IPoly{{x1, y0}, {x1, y1}, {x0, y1}, {x0, y0}}; }
// do two convex polygons have intersecting interiors? exact (separating axis over edge normals)
inline bool interiorsIntersect(const IPoly &A, const IPoly &B) {
    for (int pass = 0; pass < 2; pass++) {
        const IPoly &P = pass ? B : A, &Q = pass ? A : B;
        for (size_t i = 0; i < P.size(); i++) { bool allOut = true; for (auto &q : Q) if (cross(P[i], P[(i + 1) % P.size()], q) > 0) { allOut = false; break; } if (allOut) return false; }
    }
    return true;
}
// do two closed convex polygons share at least one point (touch or overlap)? exact
inline bool closedIntersect(const IPoly &A, const IPoly &B) {
    for (int pass = 0; pass < 2; pass++) {
        const IPoly &P = pass ? B : A, &Q = pass ? A : B;
        for (size_t i = 0; i < P.size(); i++) { bool allStrictlyOut = true; for (auto &q : Q) if (cross(P[i], P[(i + 1) % P.size()], q) >= 0) { allStrictlyOut = false; break; } if (allStrictlyOut) return false; }
    }
    return true;
}
// strictly convex hull, positive orientation
inline IPoly hull(std::vector<IP> pts) {
    std::sort(pts.begin(), pts.end(), [](IP a, IP b) { return a.x < b.x || (a.x == b.x && a.y < b.y); });
    pts.erase(std::unique(pts.begin(), pts.end()), pts.end());
    if (pts.size() < 3) return IPoly();
    std::vector<IP> h(2 * pts.size()); size_t k = 0;
    for (size_t i = 0; i < pts.size(); i++) { while (k >= 2 && cross(h[k - 2], h[k - 1], pts[i]) <= 0) k--; h[k++] = pts[i]; }
    for (size_t i = pts.size() - 1, t = k + 1; i-- > 0;) { while (k >= t && cross(h[k - 2], h[k - 1], pts[i]) <= 0) k--; h[k++] = pts[i]; }
    h.resize(k - 1);
    if (h.size() < 3) return IPoly();
    return h;
}

// ---------------------------------------------------------------- scene model
struct ShapeSpec { IPoly poly; bool isRect = false; };
struct ConnSpec { IP src, dst; unsigned srcDirs = Avoid::ConnDirAll, dstDirs = Avoid::ConnDirAll; };
struct Scene {
    bool orthogonal = false;
    std::vector<ShapeSpec> shapes;
    std::vector<ConnSpec> conns;
    std::map<int, double> params;     // RoutingParameter -> value
    std::map<int, bool> options;      // RoutingOption -> value
    std::string regime;
};
inline std::string scene_json(const Scene &S) {
    JArr sh; for (auto &s : S.shapes) sh.raw(polyj(s.poly));
    JArr cs; for (auto &c : S.conns) cs.raw(JObj().raw("src", ipj(c.src)).raw("dst", ipj(c.dst)).i("srcDirs", c.srcDirs).i("dstDirs", c.dstDirs).done());
    JObj pr; for (auto &kv : S.params) pr.num(std::to_string(kv.first), kv.second);
    JObj op; for (auto &kv : S.options) op.b(std::to_string(kv.first), kv.second);
    return JObj().str("routing", S.orthogonal ? "orthogonal" : "polyline").str("regime", S.regime).raw("shapes", sh.done()).raw("connectors", cs.done()).raw("params", pr.done()).raw("options", op.done()).done();
}
inline uint64_t scene_digest(const Scene &S) {
    Digest D; D.i(S.orthogonal);
    for (auto &s : S.shapes) { D.i((ll)s.poly.size()); for (auto &p : s.poly) { D.i(p.x); D.i(p.y); } }
    for (auto &c : S.conns) { D.i(c.src.x); D.i(c.src.y); D.i(c.dst.x); D.i(c.dst.y); D.i(c.srcDirs); D.i(c.dstDirs); }
    for (auto &kv : S.params) { D.i(kv.first); D.d(kv.second); }
    for (auto &kv : S.options) { D.i(kv.first); D.i(kv.second); }
    return D.h;
}

struct Built {
    Avoid::Router *router = nullptr;
    std::vector<Avoid::ShapeRef *> shapes;
    std::vector<Avoid::ConnRef *> conns;
    // when a library assertion (thrown as vpsc::CriticalFailure in the monitor build) unwinds through here the router's state is
    // undefined: abandon it instead of running its destructor
    ~Built() { if (!std::uncaught_exception()) delete router; }
};
inline Avoid::Polygon toPolygon(const IPoly &pl) { Avoid::Polygon pg((int)pl.size()); for (size_t i = 0; i < pl.size(); i++) pg.ps[i] = Avoid::Point((double)pl[i].x, (double)pl[i].y); return pg; }
inline void build(const Scene &S, Built &B, bool transactions = true) {
    B.router = new Avoid::Router(S.orthogonal ? Avoid::OrthogonalRouting : Avoid::PolyLineRouting);
    for (auto &kv : S.params) B.router->setRoutingParameter((Avoid::RoutingParameter)kv.first, kv.second);
    for (auto &kv : S.options) B.router->setRoutingOption((Avoid::RoutingOption)kv.first, kv.second);
    if (!transactions) B.router->setTransactionUse(false);
    for (auto &s : S.shapes) { Avoid::Polygon pg = toPolygon(s.poly); B.shapes.push_back(new Avoid::ShapeRef(B.router, pg)); }
    for (auto &c : S.conns) {
        Avoid::ConnEnd a(Avoid::Point((double)c.src.x, (double)c.src.y), c.srcDirs), b(Avoid::Point((double)c.dst.x, (double)c.dst.y), c.dstDirs);
        Avoid::ConnRef *cr = new Avoid::ConnRef(B.router, a, b);
        cr->setRoutingType(S.orthogonal ? Avoid::ConnType_Orthogonal : Avoid::ConnType_PolyLine);
        B.conns.push_back(cr);
    }
}

// ---------------------------------------------------------------- scene generators
inline bool boxesClear(const IPoly &a, const IPoly &b, ll gap) {
    ll ax0, ay0, ax1, ay1, bx0, by0, bx1, by1; bbox(a, ax0, ay0, ax1, ay1); bbox(b, bx0, by0, bx1, by1);
    return ax1 + gap <= bx0 || bx1 + gap <= ax0 || ay1 + gap <= by0 || by1 + gap <= ay0;
}
inline IPoly randomConvex(Rng &R, ll cx, ll cy, ll w, ll h, bool allowPolys, bool *isRect) {
    *isRect = true;
    if (!allowPolys || R.coin(0.55)) return rectPoly(cx - w, cy - h, cx + w, cy + h);
    *isRect = false;
    int k = (int)R.ri(0, 3);
    if (k == 0) return IPoly{{cx + w, cy}, {cx, cy + h}, {cx - w, cy}, {cx, cy - h}};                 // diamond
    if (k == 1) { if (R.coin()) return IPoly{{cx + w, cy - h}, {cx, cy + h}, {cx - w, cy - h}}; return IPoly{{cx + w, cy + h}, {cx - w, cy + h}, {cx, cy - h}}; }   // triangles
    std::vector<IP> pts; int np = (int)R.ri(4, 12);
    for (int i = 0; i < np; i++) pts.push_back({cx + R.ri(-w, w), cy + R.ri(-h, h)});
    IPoly hl = hull(pts);
    if (hl.size() < 3 || hl.size() > 8) { *isRect = true; return rectPoly(cx - w, cy - h, cx + w, cy + h); }
    return hl;
}
// separated shapes: bounding boxes at least `gap` apart
inline void genSeparated(Rng &R, Scene &S, int ns, ll span, ll gap, bool allowPolys, ll maxHalf = 50) {
    int tries = 0;
    while ((int)S.shapes.size() < ns && tries++ < 400) {
        ll w = R.ri(3, maxHalf), h = R.ri(3, maxHalf), cx = R.ri(w + 5, span - w - 5), cy = R.ri(h + 5, span - h - 5);
        ShapeSpec sp; sp.poly = randomConvex(R, cx, cy, w, h, allowPolys, &sp.isRect);
        bool ok = true; for (auto &q : S.shapes) if (!boxesClear(sp.poly, q.poly, gap)) { ok = false; break; }
        if (ok) S.shapes.push_back(sp);
    }
}
// touching shapes: cells of an irregular grid; neighbouring cells share whole edges, partial edges or corners
inline void genTouching(Rng &R, Scene &S, int ns, bool allowPolys) {
    int gx = (int)R.ri(2, 5), gy = (int)R.ri(2, 5);
    std::vector<ll> xs{20}, ys{20};
    for (int i = 0; i < gx; i++) xs.push_back(xs.back() + R.ri(10, 60));
    for (int j = 0; j < gy; j++) ys.push_back(ys.back() + R.ri(10, 60));
    std::vector<std::pair<int, int>> cells; for (int i = 0; i < gx; i++) for (int j = 0; j < gy; j++) cells.push_back({i, j});
    R.shuffle(cells);
    for (auto &c : cells) {
        if ((int)S.shapes.size() >= ns) break;
        if (R.coin(0.35)) continue;
        ll x0 = xs[c.first], x1 = xs[c.first + 1], y0 = ys[c.second], y1 = ys[c.second + 1];
        ShapeSpec sp;
        int k = allowPolys ? (int)R.ri(0, 4) : 0;
        if (k <= 1) { sp.poly = rectPoly(x0, y0, x1, y1); sp.isRect = true; if (R.coin(0.3)) { ll sx = R.ri(0, (x1 - x0) / 3), sy = R.ri(0, (y1 - y0) / 3); sp.poly = rectPoly(x0 + sx, y0 + sy, x1, y1); } }
        else if (k == 2) sp.poly = IPoly{{x1, y0}, {x1, y1}, {x0, y1}};      // right triangles sharing the cell's sides
        else if (k == 3) sp.poly = IPoly{{x1, y0}, {x0, y1}, {x0, y0}};
        else { ll mx = (x0 + x1) / 2, my = (y0 + y1) / 2; sp.poly = IPoly{{x1, my}, {mx, y1}, {x0, my}, {mx, y0}}; }   // diamond touching the cell sides at points
        S.shapes.push_back(sp);
    }
}
inline bool pointFree(const Scene &S, IP p, ll margin) {   // outside every shape's bounding box grown by margin
    for (auto &s : S.shapes) { ll x0, y0, x1, y1; bbox(s.poly, x0, y0, x1, y1); if (p.x >= x0 - margin && p.x <= x1 + margin && p.y >= y0 - margin && p.y <= y1 + margin) { if (margin > 0) return false; if (ptInClosed(p, s.poly)) return false; } }
    return true;
}
inline bool genFreeEndpoints(Rng &R, const Scene &S, ll lo, ll hi, ll margin, IP &a, IP &b) {
    for (int e = 0; e < 2; e++) { IP &p = e ? b : a; int t = 0; do { p = IP{R.ri(lo, hi), R.ri(lo, hi)}; } while (!pointFree(S, p, margin) && ++t < 300); if (t >= 300) return false; }
    return !(a == b);
}

// ---------------------------------------------------------------- reference: Euclidean shortest path on my own visibility graph
struct VisOracle {
    std::vector<IP> V; std::vector<std::vector<double>> W; // W<0: not visible
    // vertices: 0 = src, 1 = dst, then all shape vertices.  Edge iff the open segment misses every shape interior
    // (shapes listed in `exempt` are ignored: those containing an endpoint)
    void buildGraph(const Scene &S, IP src, IP dst, const std::vector<char> &exempt) {
        V.clear(); V.push_back(src); V.push_back(dst); owner.assign(2, -1); polys.clear();
        for (size_t s = 0; s < S.shapes.size(); s++) if (!exempt[s]) { polys.push_back(&S.shapes[s].poly); for (auto &p : S.shapes[s].poly) { V.push_back(p); owner.push_back((int)polys.size() - 1); } }
        size_t n = V.size(); W.assign(n, std::vector<double>(n, -1));
        for (size_t i = 0; i < n; i++) for (size_t j = i + 1; j < n; j++) {
            if (V[i] == V[j]) { W[i][j] = W[j][i] = 0; continue; }
            bool blk = false;
            for (size_t s = 0; s < S.shapes.size() && !blk; s++) if (!exempt[s] && segHitsInterior(V[i], V[j], S.shapes[s].poly)) blk = true;
            if (!blk) W[i][j] = W[j][i] = std::hypot((double)(V[i].x - V[j].x), (double)(V[i].y - V[j].y));
        }
    }
    // minimum of sum(len) + pen*(#segments-1) over ALL visibility-graph paths; returns <0 when unreachable
    double shortest(double pen, int *segments = nullptr) const {
        size_t n = V.size(); std::vector<double> D(n, 1e300); std::vector<int> hops(n, 0); std::vector<char> done(n, 0); D[0] = 0;
        for (;;) {
            int u = -1; for (size_t i = 0; i < n; i++) if (!done[i] && D[i] < 1e300 && (u < 0 || D[i] < D[u])) u = (int)i;
            if (u < 0) break; done[u] = 1; if (u == 1) break;
            for (size_t v = 0; v < n; v++) if (W[u][v] >= 0 && !done[v]) { double cc = D[u] + W[u][v] + pen; if (cc < D[v]) { D[v] = cc; hops[v] = hops[u] + 1; } }
        }
        if (D[1] >= 1e300) return -1;
        if (segments) *segments = hops[1];
        return D[1] - pen;   // k segments cost (k-1) bends
    }
    // owner[i]: index into `polys` of the shape vertex V[i] belongs to (-1 for src/dst); filled by buildGraph
    std::vector<int> owner; std::vector<const IPoly *> polys;
    // side of polygon P relative to the directed line a->b: +1 all vertices on the left or on the line, -1 all on the right or on, 0 otherwise
    static int supportSide(IP a, IP b, const IPoly &P) { bool pos = false, neg = false; for (auto &q : P) { i128 c = cross(a, b, q); if (c > 0) pos = true; else if (c < 0) neg = true; } return pos && neg ? 0 : pos ? 1 : neg ? -1 : 0; }
    // minimum of length + pen*bends over TAUT visibility-graph paths: every bend is at a shape corner and wraps around that
    // shape (both adjacent segments lie on supporting lines of the shape, the shape on the inner side of the turn).
    // Dijkstra over directed edges.  returns <0 when unreachable
    double shortestTaut(double pen, int *bendsOut = nullptr) const {
        size_t n = V.size();
        auto eid = [&](size_t u, size_t v) { return u * n + v; };
        std::vector<double> D(n * n, 1e300); std::vector<int> Bn(n * n, 0);
        typedef std::pair<double, size_t> QE; std::priority_queue<QE, std::vector<QE>, std::greater<QE>> pq;
        for (size_t v = 1; v < n; v++) if (W[0][v] >= 0 && !(V[v] == V[0])) { D[eid(0, v)] = W[0][v]; pq.push({W[0][v], eid(0, v)}); }
        while (!pq.empty()) {
            QE e = pq.top(); pq.pop(); if (e.first > D[e.second]) continue;
            size_t u = e.second / n, v = e.second % n;
            if (v == 1) { if (bendsOut) *bendsOut = Bn[e.second]; return e.first; }
            if (owner[v] < 0) continue;
            const IPoly &P = *polys[owner[v]];
            int sIn = supportSide(V[u], V[v], P);
            for (size_t w = 0; w < n; w++) {
                if (w == v || w == u || W[v][w] < 0 || V[w] == V[v]) continue;
                i128 c = cross(V[u], V[v], V[w]);
                double add;
                if (c == 0) { i128 dot = (i128)(V[v].x - V[u].x) * (V[w].x - V[v].x) + (i128)(V[v].y - V[u].y) * (V[w].y - V[v].y); if (dot <= 0) continue; add = 0; }
                else { int turn = c > 0 ? 1 : -1; if (sIn != turn) continue; if (supportSide(V[v], V[w], P) != turn) continue; add = pen; }
                double nd = e.first + W[v][w] + add; size_t k = eid(v, w);
                if (nd < D[k]) { D[k] = nd; Bn[k] = Bn[e.second] + (add > 0 || (c != 0)); pq.push({nd, k}); }
            }
        }
        return -1;
    }
};

// ---------------------------------------------------------------- reference: orthogonal minimum length + bend cost on a Hanan-type grid
struct IRect { ll x0, y0, x1, y1; };
inline bool orthoBlocked(IP a, IP b, const std::vector<IRect> &rs) {   // axis-parallel segment through an OPEN rectangle interior
    ll sx0 = std::min(a.x, b.x), sx1 = std::max(a.x, b.x), sy0 = std::min(a.y, b.y), sy1 = std::max(a.y, b.y);
    for (auto &r : rs) {
        if (a.y == b.y) { if (a.y > r.y0 && a.y < r.y1 && sx1 > r.x0 && sx0 < r.x1) return true; }
        else { if (a.x > r.x0 && a.x < r.x1 && sy1 > r.y0 && sy0 < r.y1) return true; }
    }
    return false;
}
// headings: 0 = +x (right), 1 = +y (down on screen), 2 = -x (left), 3 = -y (up)
inline unsigned headingToConnDir(int h) { return h == 0 ? Avoid::ConnDirRight : h == 1 ? Avoid::ConnDirDown : h == 2 ? Avoid::ConnDirLeft : Avoid::ConnDirUp; }
inline double orthoOracle(IP s, IP t, unsigned sDirs, unsigned tDirs, const std::vector<IRect> &rs, double pen, int *bendsOut = nullptr) {
    std::vector<ll> xs{s.x, t.x}, ys{s.y, t.y};
    for (auto &r : rs) { xs.push_back(r.x0); xs.push_back(r.x1); ys.push_back(r.y0); ys.push_back(r.y1); }
    std::sort(xs.begin(), xs.end()); xs.erase(std::unique(xs.begin(), xs.end()), xs.end());
    std::sort(ys.begin(), ys.end()); ys.erase(std::unique(ys.begin(), ys.end()), ys.end());
    int nx = (int)xs.size(), ny = (int)ys.size();
    auto id = [&](int i, int j, int d) { return (i * ny + j) * 4 + d; };
    std::vector<double> D((size_t)nx * ny * 4, 1e300); std::vector<int> Bn((size_t)nx * ny * 4, 0);
    typedef std::pair<double, int> QE; std::priority_queue<QE, std::vector<QE>, std::greater<QE>> pq;
    int si = (int)(std::lower_bound(xs.begin(), xs.end(), s.x) - xs.begin()), sj = (int)(std::lower_bound(ys.begin(), ys.end(), s.y) - ys.begin());
    int ti = (int)(std::lower_bound(xs.begin(), xs.end(), t.x) - xs.begin()), tj = (int)(std::lower_bound(ys.begin(), ys.end(), t.y) - ys.begin());
    static const int dx[4] = {1, 0, -1, 0}, dy[4] = {0, 1, 0, -1};
    // seed: first move in heading d, allowed iff the source may leave in that direction
    for (int d = 0; d < 4; d++) {
        if (!(sDirs & headingToConnDir(d))) continue;
        int ni = si + dx[d], nj = sj + dy[d]; if (ni < 0 || nj < 0 || ni >= nx || nj >= ny) continue;
        IP a{xs[si], ys[sj]}, b{xs[ni], ys[nj]}; if (orthoBlocked(a, b, rs)) continue;
        double w = (double)(std::llabs(a.x - b.x) + std::llabs(a.y - b.y)); int k = id(ni, nj, d);
        if (w < D[k]) { D[k] = w; Bn[k] = 0; pq.push({w, k}); }
    }
    double best = -1;
    while (!pq.empty()) {
        QE e = pq.top(); pq.pop(); if (e.first > D[e.second]) continue;
        int d = e.second % 4, c = e.second / 4, i = c / ny, j = c % ny;
        if (i == ti && j == tj) {
            // arriving with heading d means the last segment lies on the side opposite to d of the target
            if (tDirs & headingToConnDir((d + 2) % 4)) { best = e.first; if (bendsOut) *bendsOut = Bn[e.second]; break; }
        }
        for (int nd = 0; nd < 4; nd++) {
            // doubling straight back is a legal (if silly) orthogonal route; libavoid prices it as two bends, and so does the oracle
            int nb = nd == d ? 0 : ((nd + 2) % 4) == d ? 2 : 1;
            int ni = i + dx[nd], nj = j + dy[nd]; if (ni < 0 || nj < 0 || ni >= nx || nj >= ny) continue;
            IP a{xs[i], ys[j]}, b{xs[ni], ys[nj]}; if (orthoBlocked(a, b, rs)) continue;
            double w = (double)(std::llabs(a.x - b.x) + std::llabs(a.y - b.y)) + nb * pen;
            int k = id(ni, nj, nd); if (e.first + w < D[k]) { D[k] = e.first + w; Bn[k] = Bn[e.second] + nb; pq.push({D[k], k}); }
        }
    }
    return best;
}

inline double polylineLength(const Avoid::PolyLine &r) { double L = 0; for (size_t i = 1; i < r.size(); i++) L += std::hypot(r.ps[i].x - r.ps[i - 1].x, r.ps[i].y - r.ps[i - 1].y); return L; }
inline std::string routej(const Avoid::PolyLine &r) { JArr a; for (size_t i = 0; i < r.size(); i++) a.raw(JArr().num(r.ps[i].x).num(r.ps[i].y).done()); return a.done(); }
// bends of a polyline after removing repeated points and collinear pass-through points
inline int countBends(const Avoid::PolyLine &r, int reversalCost = 2) {
    std::vector<DP> p; for (size_t i = 0; i < r.size(); i++) { DP q{r.ps[i].x, r.ps[i].y}; if (p.empty() || p.back().x != q.x || p.back().y != q.y) p.push_back(q); }
    int b = 0; for (size_t i = 1; i + 1 < p.size(); i++) { long double c = crossd(p[i - 1], p[i], p[i + 1]); long double dot = ((long double)p[i].x - p[i - 1].x) * ((long double)p[i + 1].x - p[i].x) + ((long double)p[i].y - p[i - 1].y) * ((long double)p[i + 1].y - p[i].y); if (c != 0) b++; else if (dot < 0) b += reversalCost; }
    return b;
}
} // namespace av
#endif
