// C18: libdialect -- constraint transforms commute with geometry; TGLF round-trips.
//   table     exhaustive: gap type x direction x relation x gap value (+g, +0, -0, -g, fractional) x transform sequence
//             (each single transform, every ordered pair, CW^4, ACW^4, CW.CW.R180) x storage order (a,b)/(b,a) x second constraint.
//             The constraint is observed through the two public channels -- SepMatrix::writeTglf() lines, read by an interpreter
//             written from the TGLF documentation in io.h, and the vpsc::Constraint objects of generateSeparationConstraints() --
//             and evaluated on several hundred placements around every satisfaction threshold.
//   subset    transformClosedSubset / transformOpenSubset on random 3-7 node matrices against pair-wise application; removeNode(s);
//             Graph::rotate90cw/acw/180 move centres, routes and constraints together.
//   roundtrip random graphs (external ids in any order or missing, geometry, routes, constraints) -> writeTglf -> buildGraphFromTglf.
#include "dialect_common.h"
#include <functional>
#include <array>

using namespace dc;
using namespace dialect;

typedef std::map<unsigned, Box> Placement;

static const SepTransform TFS[7] = {SepTransform::ROTATE90CW, SepTransform::ROTATE90ACW, SepTransform::ROTATE180, SepTransform::FLIPV, SepTransform::FLIPH, SepTransform::FLIPMD, SepTransform::FLIPOD};
static const char *TFN[7] = {"ROTATE90CW", "ROTATE90ACW", "ROTATE180", "FLIPV", "FLIPH", "FLIPMD", "FLIPOD"};
static const SepDir SDS[8] = {SepDir::EAST, SepDir::SOUTH, SepDir::WEST, SepDir::NORTH, SepDir::RIGHT, SepDir::DOWN, SepDir::LEFT, SepDir::UP};
static const char SDC[8] = {'E', 'S', 'W', 'N', 'R', 'D', 'L', 'U'};

// my own plane maps (graphics plane, y down): the documented meaning of each transform
static void mapPoint(int tf, double x, double y, double &X, double &Y) {
    switch (tf) {
    case 0: X = -y; Y = x; break;    // quarter turn clockwise: east -> south
    case 1: X = y; Y = -x; break;    // quarter turn anticlockwise: east -> north
    case 2: X = -x; Y = -y; break;
    case 3: X = -x; Y = y; break;    // flip over the vertical axis
    case 4: X = x; Y = -y; break;    // flip over the horizontal axis
    case 5: X = y; Y = x; break;     // flip over the main diagonal (upper left to lower right)
    default: X = -y; Y = -x; break;  // flip over the other diagonal
    }
}
static bool swapsAxes(int tf) { return tf == 0 || tf == 1 || tf == 5 || tf == 6; }
static Box mapBox(int tf, const Box &b) { Box r; mapPoint(tf, b.cx, b.cy, r.cx, r.cy); r.w = swapsAxes(tf) ? b.h : b.w; r.h = swapsAxes(tf) ? b.w : b.h; return r; }
static Placement mapPlacement(const std::vector<int> &seq, const Placement &P) { Placement Q = P; for (int tf : seq) for (auto &p : Q) p.second = mapBox(tf, p.second); return Q; }
// element of the symmetry group of the square a sequence composes to: images of (1,0) and (0,1)
static std::array<double, 4> composite(const std::vector<int> &seq) { double ax = 1, ay = 0, bx = 0, by = 1; for (int tf : seq) { double X, Y; mapPoint(tf, ax, ay, X, Y); ax = X; ay = Y; mapPoint(tf, bx, by, X, Y); bx = X; by = Y; } return {ax, ay, bx, by}; }

// channel 1: the constraint lines the matrix writes, read with the documented TGLF meaning
static bool linesOf(SepMatrix &M, const std::map<id_type, unsigned> &id2ext, std::vector<SepLine> &out, std::string &text, std::string &err) {
    try { text = M.writeTglf(id2ext); } catch (std::runtime_error &e) { err = e.what(); return false; }
    TglfDoc d; if (!parseTglf("#\n#\n" + text, d)) { err = "unparseable: " + text; return false; }
    out = d.sepcos; return true;
}
static double tglfViolation(const std::vector<SepLine> &ls, const Placement &P) { double v = 0; for (auto &s : ls) v = std::max(v, sepViolation(s, P.at(s.a), P.at(s.b))); return v; }
// channel 2: the VPSC constraints generated for a layout of the graph with the placement's node geometry
static double vpscViolation(Graph &G, const std::map<id_type, unsigned> &id2ext, const Placement &P) {
    // Graph::updateColaGraphRep() rebuilds its rectangles only after nodes were added or removed (not after setDims/setCentre), so the
    // rectangles the constraint generator reads are given the placement's geometry directly
    ColaGraphRep &cgr = G.getColaGraphRep(); if (cgr.rs.size() != G.getNumNodes()) G.updateColaGraphRep();
    for (auto &p : G.getNodeLookup()) { const Box &b = P.at(id2ext.at(p.first)); *cgr.rs[cgr.id2ix.at(p.first)] = vpsc::Rectangle(b.cx - b.w / 2, b.cx + b.w / 2, b.cy - b.h / 2, b.cy + b.h / 2); }
    size_t n = cgr.rs.size(); double worst = 0;
    for (int dim = 0; dim < 2; dim++) {
        vpsc::Variables vs; for (size_t i = 0; i < n; i++) vs.push_back(new vpsc::Variable((int)i, 0, 1));
        vpsc::Constraints cs; vpsc::Rectangles bbs; G.getSepMatrix().generateSeparationConstraints((vpsc::Dim)dim, vs, cs, bbs);
        for (auto c : cs) {
            const Box &l = P.at(id2ext.at(cgr.ix2id.at((size_t)c->left->id))), &r = P.at(id2ext.at(cgr.ix2id.at((size_t)c->right->id)));
            double sep = dim == 0 ? r.cx - l.cx : r.cy - l.cy; double v = c->equality ? std::fabs(sep - c->gap) : c->gap - sep; worst = std::max(worst, v);
        }
        for (auto c : cs) delete c; for (auto v : vs) delete v;
    }
    return worst;
}
static std::string boxJson(const Box &b) { return JArr().num(b.cx).num(b.cy).num(b.w).num(b.h).done(); }
static std::string plJson(const Placement &P) { JObj o; for (auto &p : P) o.raw(std::to_string(p.first), boxJson(p.second)); return o.done(); }

static const double TOL = 1e-9;
static const double GAPS[6] = {12, 0.0, -0.0, -12, 3.5, -3.5};

struct TwoNode {
    Graph G; Node_SP a, b; std::map<id_type, unsigned> id2ext;
    TwoNode(double wa, double ha, double wb, double hb, double extra) { a = Node::allocate(); b = Node::allocate(); a->setDims(wa, ha); b->setDims(wb, hb); G.addNode(a); G.addNode(b); id2ext[a->id()] = 0; id2ext[b->id()] = 1; G.getSepMatrix().setExtraBdryGap(extra); }
    void add(bool flipped, GapType gt, SepDir sd, SepType st, double gap) { if (flipped) G.getSepMatrix().addSep(b->id(), a->id(), gt, negateSepDir(sd), st, gap); else G.getSepMatrix().addSep(a->id(), b->id(), gt, sd, st, gap); }
};

static void case_table(const Args &a, long idx, bool wantDesc, CaseResult &res) {
    long k = idx;
    int gti = (int)(k % 2); k /= 2; int sdi = (int)(k % 8); k /= 8; int sti = (int)(k % 2); k /= 2; int gi = (int)(k % 6); k /= 6; int seqi = (int)(k % 59); k /= 59; int flip = (int)(k % 2); k /= 2; int second = (int)(k % 5); k /= 5;
    if (k > 0) { res.inconclusive = "beyond-table"; return; }
    Rng R(mix(mix(a.seed, 0xC18), (uint64_t)idx));
    std::vector<int> seq; if (seqi < 7) seq = {seqi}; else if (seqi < 56) seq = {(seqi - 7) / 7, (seqi - 7) % 7}; else if (seqi == 56) seq = {0, 0, 0, 0}; else if (seqi == 57) seq = {1, 1, 1, 1}; else seq = {0, 0, 2};
    static const double DIMS[4] = {4, 6, 10, 14};
    double wa = DIMS[R.ri(0, 3)], ha = DIMS[R.ri(0, 3)], wb = DIMS[R.ri(0, 3)], hb = DIMS[R.ri(0, 3)], extra = R.coin() ? 0 : 2;
    GapType gt = gti ? GapType::BDRY : GapType::CENTRE; SepDir sd = SDS[sdi]; SepType st = sti ? SepType::INEQ : SepType::EQ; double gap = GAPS[gi];
    bool horiz = sdi == 0 || sdi == 2 || sdi == 4 || sdi == 6;
    JArr sj; for (int tf : seq) sj.str(TFN[tf]);
    std::string desc = JObj().str("gapType", gti ? "BDRY" : "CENTRE").str("dir", std::string(1, SDC[sdi])).str("relation", sti ? ">=" : "==").num("gap", gap).b("gap_sign_bit", std::signbit(gap)).raw("transforms", sj.done())
        .b("stored_as_b_a_with_negated_direction", flip).str("second_constraint", second == 0 ? "none" : second == 1 ? "other axis BDRY >= 5 added before" : second == 2 ? "other axis CENTRE == 7 added after" : second == 3 ? "other axis BDRY >= 5 added before, ids in the opposite order" : "other axis CENTRE == 7 added after, ids in the opposite order")
        .raw("dims_wa_ha_wb_hb", JArr().num(wa).num(ha).num(wb).num(hb).done()).num("extraBdryGap", extra).done();
    Digest D; D.s(desc); res.digest = D.h; res.gen = std::string(seq.size() == 1 ? "single-transform" : seq.size() == 2 ? "pair-of-transforms" : "long-sequence") + (flip ? "/flipped-storage" : "");
    if (wantDesc) res.desc = desc;
    res.nontrivial = true;

    auto build = [&](TwoNode &T, bool flipped) {
        SepDir other = horiz ? SepDir::DOWN : SepDir::RIGHT;
        if (second == 1 || second == 3) T.add(second == 3 ? !flipped : flipped, GapType::BDRY, other, SepType::INEQ, 5);
        T.add(flipped, gt, sd, st, gap);
        if (second == 2 || second == 4) T.add(second == 4 ? !flipped : flipped, GapType::CENTRE, other, SepType::EQ, 7);
    };
    TwoNode T(wa, ha, wb, hb, extra); build(T, flip != 0);
    std::vector<SepLine> L0; std::string text0, err;
    if (!linesOf(T.G.getSepMatrix(), T.id2ext, L0, text0, err)) { res.inconclusive = "writer-refuses:" + err; res.nontrivial = false; return; }
    res.count("constraint_lines_written", (long)L0.size());

    // placements around every threshold
    double g = std::fabs(gap), hx = (wa + wb) / 2 + extra, hy = (ha + hb) / 2 + extra;
    std::set<double> exact; for (double base : {0.0, g, 5.0, 7.0}) for (double h : {0.0, hx, hy}) { exact.insert(base + h); exact.insert(-(base + h)); }
    std::vector<double> ex(exact.begin(), exact.end()), near; for (double e : ex) for (double d : {-1.0, -0.5, 0.0, 0.5, 1.0}) near.push_back(e + d);
    std::vector<Placement> Ps; double ax = (double)R.ri(-20, 20), ay = (double)R.ri(-20, 20);
    auto mk = [&](double dx, double dy) { Placement P; P[0] = Box{ax, ay, wa, ha}; P[1] = Box{ax + dx, ay + dy, wb, hb}; return P; };
    for (double dx : ex) for (double dy : ex) Ps.push_back(mk(dx, dy));
    for (int q = 0; q < 200; q++) Ps.push_back(mk(near[R.ri(0, (long)near.size() - 1)], near[R.ri(0, (long)near.size() - 1)]));

    // (a) a-priori meaning of a single call with a non-negative gap, from the documentation of the directions
    bool haveRef = !std::signbit(gap);
    SepLine ref; ref.a = 0; ref.b = 1; ref.gapType = gti ? 'B' : 'C'; ref.dir = SDC[sdi]; ref.eq = !sti; ref.gap = gap + (gti ? extra : 0);
    // (b) flipped storage: the same constraint entered the other way round
    TwoNode T2(wa, ha, wb, hb, extra); build(T2, flip == 0);
    std::vector<SepLine> L2; std::string text2;
    if (!linesOf(T2.G.getSepMatrix(), T2.id2ext, L2, text2, err)) { res.violate("flipped-storage:writer-refuses-one-order-only", JObj().str("error", err).raw("case", desc).done()); return; }
    if (text2 != text0) { res.violate("flipped-storage:different-constraint-text", JObj().str("as_given", text0).str("other_order", text2).raw("case", desc).done()); return; }
    // (c) transform
    for (int tf : seq) T.G.getSepMatrix().transform(TFS[tf]);
    std::vector<SepLine> L1; std::string text1;
    if (!linesOf(T.G.getSepMatrix(), T.id2ext, L1, text1, err)) { res.violate("transform:writer-refuses-transformed-constraint", JObj().str("error", err).str("before", text0).raw("case", desc).done()); return; }
    auto comp = composite(seq); bool identity = comp == std::array<double, 4>{1, 0, 0, 1};
    if (identity) { res.count("identity_sequences_checked"); if (text1 != text0) { res.violate("group-law:identity-sequence-changes-constraint", JObj().str("before", text0).str("after", text1).raw("case", desc).done()); return; } }
    // the single transform (if any) the sequence composes to must give an equivalent constraint
    std::vector<SepLine> L3; bool haveSingle = false; std::string text3;
    if (seq.size() > 1 && !identity) for (int tf = 0; tf < 7; tf++) if (composite({tf}) == comp) {
        TwoNode T3(wa, ha, wb, hb, extra); build(T3, flip != 0); T3.G.getSepMatrix().transform(TFS[tf]);
        if (linesOf(T3.G.getSepMatrix(), T3.id2ext, L3, text3, err)) haveSingle = true;
        res.count("composite_sequences_compared_with_single_transform");
    }
    long sat0 = 0, unsat0 = 0;
    for (auto &P : Ps) {
        double v0 = tglfViolation(L0, P); bool s0 = v0 <= TOL; (s0 ? sat0 : unsat0)++;
        if (haveRef) { double vr = sepViolation(ref, P.at(0), P.at(1)); bool cardinal = sdi < 4;
            // a second constraint on the other axis: added before a cardinal direction it is overwritten by the alignment; otherwise both hold
            if ((second == 1 || second == 3) && !cardinal) { SepLine r2 = ref; r2.gapType = 'B'; r2.dir = horiz ? 'D' : 'R'; r2.eq = false; r2.gap = 5 + extra; vr = std::max(vr, sepViolation(r2, P.at(0), P.at(1))); }
            if (second == 2 || second == 4) { SepLine r2 = ref; r2.gapType = 'C'; r2.dir = horiz ? 'D' : 'R'; r2.eq = true; r2.gap = 7; if (cardinal) { SepLine r1 = ref; r1.dir = "RDLU"[sdi]; vr = sepViolation(r1, P.at(0), P.at(1)); } vr = std::max(vr, sepViolation(r2, P.at(0), P.at(1))); } if ((vr <= TOL) != s0) { res.violate(std::string("meaning:written-constraint-differs-from-documented-direction[") + SDC[sdi] + (gti ? ",B" : ",C") + "]", JObj().str("written", text0).raw("placement", plJson(P)).num("violation_of_written", v0).num("violation_of_documented", vr).raw("case", desc).done()); return; } }
        double w0 = vpscViolation(T2.G, T2.id2ext, P);   // T2 holds the untransformed constraint
        if ((w0 <= TOL) != s0) { res.violate("channels:vpsc-constraints-differ-from-written-constraint", JObj().str("written", text0).raw("placement", plJson(P)).num("violation_tglf", v0).num("violation_vpsc", w0).raw("case", desc).done()); return; }
        Placement Q = mapPlacement(seq, P);
        double v1 = tglfViolation(L1, Q);
        if ((v1 <= TOL) != s0) { res.violate(std::string("commute:transformed-constraint-on-transformed-placement[") + TFN[seq[0]] + (seq.size() > 1 ? std::string("+") + TFN[seq[1]] : "") + "]", JObj().str("before", text0).str("after", text1).raw("placement", plJson(P)).raw("transformed_placement", plJson(Q)).num("violation_before", v0).num("violation_after", v1).raw("case", desc).done()); return; }
        double w1 = vpscViolation(T.G, T.id2ext, Q);
        if ((w1 <= TOL) != s0) { res.violate(std::string("commute:vpsc-constraints-of-transformed-matrix[") + TFN[seq[0]] + "]", JObj().str("before", text0).str("after", text1).raw("placement", plJson(P)).raw("transformed_placement", plJson(Q)).num("violation_before", v0).num("violation_vpsc_after", w1).raw("case", desc).done()); return; }
        if (haveSingle) { double v3 = tglfViolation(L3, Q); if ((v3 <= TOL) != (v1 <= TOL)) { res.violate("group-law:sequence-differs-from-the-single-transform-it-composes-to", JObj().str("sequence_result", text1).str("single_result", text3).raw("placement", plJson(Q)).raw("case", desc).done()); return; } }
    }
    res.count("placements_evaluated", (long)Ps.size()); res.count("placements_satisfying", sat0); res.count("placements_violating", unsat0);
    if (sat0 == 0 || unsat0 == 0) res.count("cases_with_one_sided_placements");
}

// ---------------------------------------------------------------------------------------------------------------------------
struct PairSpec { int i, j; GapType gt; SepDir sd; SepType st; double gap; bool two; SepDir sd2; double gap2; };
static void addPair(SepMatrix &M, const std::vector<Node_SP> &ns, const PairSpec &p) { M.addSep(ns[p.i]->id(), ns[p.j]->id(), p.gt, p.sd, p.st, p.gap); if (p.two) M.addSep(ns[p.i]->id(), ns[p.j]->id(), GapType::BDRY, p.sd2, SepType::INEQ, p.gap2); }
static std::string sortedLines(const std::string &t) { std::vector<std::string> v; std::istringstream in(t); std::string l; while (std::getline(in, l)) if (!l.empty()) v.push_back(l); std::sort(v.begin(), v.end()); std::string r; for (auto &s : v) r += s + "\n"; return r; }

static std::vector<PairSpec> genPairs(Rng &R, int n, bool integerGaps) {
    std::vector<PairSpec> ps; std::set<std::pair<int, int>> used; int want = (int)R.ri(1, std::min(10, n * (n - 1) / 2));
    for (int t = 0; t < 60 && (int)ps.size() < want; t++) {
        int i = (int)R.ri(0, n - 1), j = (int)R.ri(0, n - 1); if (i == j || used.count({std::min(i, j), std::max(i, j)})) continue; used.insert({std::min(i, j), std::max(i, j)});
        PairSpec p; p.i = i; p.j = j; p.gt = R.coin() ? GapType::BDRY : GapType::CENTRE; int sdi = (int)R.ri(0, 7); p.sd = SDS[sdi]; p.st = R.coin() ? SepType::EQ : SepType::INEQ;
        p.gap = integerGaps ? (double)R.ri(0, 40) : R.ri(0, 320) / 8.0; if (p.gap == 0 && R.coin()) p.gap = R.coin() ? 0.0 : -0.0;
        if (p.gt == GapType::CENTRE && p.st == SepType::EQ && p.gap == 0 && sdi < 4) p.gap = 3;   // "constrained to coincide" is refused by the writer
        p.two = sdi >= 4 && R.coin(0.4); bool horiz = sdi == 4 || sdi == 6; p.sd2 = horiz ? (R.coin() ? SepDir::DOWN : SepDir::UP) : (R.coin() ? SepDir::RIGHT : SepDir::LEFT); p.gap2 = (double)R.ri(0, 20);
        ps.push_back(p);
    }
    return ps;
}
static std::string pairsJson(const std::vector<PairSpec> &ps) {
    JArr a; for (auto &p : ps) { int sdi = 0; for (int q = 0; q < 8; q++) if (SDS[q] == p.sd) sdi = q; int s2 = 0; for (int q = 0; q < 8; q++) if (SDS[q] == p.sd2) s2 = q;
        JObj o; o.i("a", p.i).i("b", p.j).str("gapType", p.gt == GapType::BDRY ? "B" : "C").str("dir", std::string(1, SDC[sdi])).str("rel", p.st == SepType::EQ ? "==" : ">=").num("gap", p.gap).b("gap_sign_bit", std::signbit(p.gap));
        if (p.two) o.str("then_B_dir", std::string(1, SDC[s2])).num("then_gap", p.gap2); a.raw(o.done()); }
    return a.done();
}

static void case_subset(const Args &a, long idx, bool wantDesc, CaseResult &res) {
    Rng R(mix(mix(a.seed, 0x5C18), (uint64_t)idx));
    int n = (int)R.ri(3, 7); int op = (int)R.ri(0, 4);   // 0 closed subset, 1 open subset, 2 removeNode, 3 removeNodes, 4 Graph rotation
    std::vector<PairSpec> ps = genPairs(R, n, true);
    int tf = (int)R.ri(0, 6); std::set<int> sub; for (int i = 0; i < n; i++) if (R.coin(0.45)) sub.insert(i);
    int rot = (int)R.ri(0, 2);
    static const char *opn[] = {"transformClosedSubset", "transformOpenSubset", "removeNode", "removeNodes", "Graph::rotate"};
    JArr sj; for (int s : sub) sj.i(s);
    std::string desc = JObj().i("nodes", n).str("operation", opn[op]).str("transform", op == 4 ? TFN[rot] : TFN[tf]).raw("subset", sj.done()).raw("constraints", pairsJson(ps)).done();
    Digest D; D.s(desc); res.digest = D.h; res.gen = opn[op]; if (wantDesc) res.desc = desc;
    Graph G; std::vector<Node_SP> ns; std::map<id_type, unsigned> id2ext;
    // allocation order is shuffled against index order so that (a,b) pairs are stored flipped or not independently of the indices
    std::vector<int> order(n); for (int i = 0; i < n; i++) order[i] = i; R.shuffle(order); ns.resize(n);
    for (int q = 0; q < n; q++) { Node_SP u = Node::allocate(); ns[order[q]] = u; }
    for (int i = 0; i < n; i++) { ns[i]->setDims(10, 10); ns[i]->setCentre(30.0 * i, 17.0 * ((i * 7) % 5)); G.addNode(ns[i]); id2ext[ns[i]->id()] = (unsigned)i; }
    SepMatrix &M = G.getSepMatrix(); for (auto &p : ps) addPair(M, ns, p);
    std::string err, before; try { before = M.writeTglf(id2ext); } catch (std::runtime_error &e) { res.inconclusive = std::string("writer-refuses:") + e.what(); return; }
    auto inSub = [&](int i) { return sub.count(i) > 0; };
    if (op <= 1) {
        std::set<id_type> ids; for (int s : sub) ids.insert(ns[s]->id());
        set_stage(opn[op]); if (op == 0) M.transformClosedSubset(TFS[tf], ids); else M.transformOpenSubset(TFS[tf], ids);
        // expected: exactly the pairs the documentation names are transformed
        Graph H; for (int i = 0; i < n; i++) H.addNode(ns[i], false);
        SepMatrix Mt(&H), Mu(&H); long moved = 0;
        for (auto &p : ps) { bool both = inSub(p.i) && inSub(p.j), one = inSub(p.i) || inSub(p.j); bool t = op == 0 ? both : one; addPair(t ? Mt : Mu, ns, p); if (t) moved++; }
        Mt.transform(TFS[tf]);
        std::string got = sortedLines(M.writeTglf(id2ext)), want = sortedLines(Mt.writeTglf(id2ext) + Mu.writeTglf(id2ext));
        res.count("subset_pairs_expected_transformed", moved); res.nontrivial = moved > 0 && moved < (long)ps.size();
        if (got != want) res.violate(std::string(opn[op]) + ":transforms-a-different-set-of-pairs", JObj().str("before", before).str("got", got).str("expected", want).raw("case", desc).done());
    } else if (op <= 3) {
        std::set<int> gone; if (op == 2) { gone.insert((int)R.ri(0, n - 1)); } else gone = sub;
        set_stage(opn[op]);
        if (op == 2) M.removeNode(ns[*gone.begin()]->id()); else { NodesById nb; for (int s : gone) nb.insert({ns[s]->id(), ns[s]}); M.removeNodes(nb); }
        Graph H; for (int i = 0; i < n; i++) H.addNode(ns[i], false); SepMatrix Mk(&H); long dropped = 0;
        for (auto &p : ps) { if (gone.count(p.i) || gone.count(p.j)) { dropped++; continue; } addPair(Mk, ns, p); }
        std::string got = sortedLines(M.writeTglf(id2ext)), want = sortedLines(Mk.writeTglf(id2ext));
        res.count("pairs_expected_removed", dropped); res.nontrivial = dropped > 0 && dropped < (long)ps.size();
        if (got != want) res.violate(std::string(opn[op]) + ":keeps-or-drops-the-wrong-pairs", JObj().str("before", before).str("got", got).str("expected", want).raw("case", desc).done());
    } else {
        // Graph::rotate90cw / rotate90acw / rotate180 (no re-layout requested): centres, routes and constraints turn together
        std::vector<Box> b0; for (int i = 0; i < n; i++) { auto c = ns[i]->getCentre(); b0.push_back(Box{c.x, c.y, 10, 10}); }
        std::vector<std::vector<Avoid::Point>> routes; std::vector<Edge_SP> es;
        for (int i = 1; i < n; i++) { Edge_SP e = G.addEdge(ns[i - 1], ns[i]); std::vector<Avoid::Point> r; int k = (int)R.ri(0, 3); for (int q = 0; q < k; q++) r.push_back(Avoid::Point((double)R.ri(-50, 200), (double)R.ri(-50, 200))); e->setRoute(r); routes.push_back(r); es.push_back(e); }
        std::vector<SepLine> L0, L1; std::string t0, t1; if (!linesOf(M, id2ext, L0, t0, err)) { res.inconclusive = "writer-refuses:" + err; return; }
        set_stage("Graph::rotate"); if (rot == 0) G.rotate90cw(); else if (rot == 1) G.rotate90acw(); else G.rotate180();
        if (!linesOf(M, id2ext, L1, t1, err)) { res.violate("graph-rotate:writer-refuses-rotated-constraints", JObj().str("error", err).raw("case", desc).done()); return; }
        res.nontrivial = true;
        for (int i = 0; i < n; i++) { double X, Y; mapPoint(rot, b0[i].cx, b0[i].cy, X, Y); auto c = ns[i]->getCentre(); if (std::fabs(c.x - X) > TOL || std::fabs(c.y - Y) > TOL) { res.violate("graph-rotate:node-centre-not-rotated", JObj().i("node", i).num("x", c.x).num("y", c.y).num("expected_x", X).num("expected_y", Y).raw("case", desc).done()); return; } }
        for (size_t e = 0; e < es.size(); e++) { auto r = es[e]->getRoute(); bool ok = r.size() == routes[e].size(); for (size_t q = 0; ok && q < r.size(); q++) { double X, Y; mapPoint(rot, routes[e][q].x, routes[e][q].y, X, Y); if (std::fabs(r[q].x - X) > TOL || std::fabs(r[q].y - Y) > TOL) ok = false; } res.count("route_points_checked", (long)r.size()); if (!ok) { res.violate("graph-rotate:route-not-rotated", JObj().i("edge", (long)e).raw("case", desc).done()); return; } }
        // constraints: random square-node placements satisfy the rotated constraints iff their pre-images satisfied the original ones
        for (int t = 0; t < 300; t++) {
            Placement P; for (int i = 0; i < n; i++) P[(unsigned)i] = Box{(double)R.ri(-6, 6) * 5, (double)R.ri(-6, 6) * 5, 10, 10};
            Placement Q = mapPlacement({rot}, P); bool s0 = tglfViolation(L0, P) <= TOL, s1 = tglfViolation(L1, Q) <= TOL;
            if (s0 != s1) { res.violate("graph-rotate:constraints-not-rotated-with-the-nodes", JObj().str("before", t0).str("after", t1).raw("placement", plJson(P)).raw("case", desc).done()); return; }
        }
        res.count("graph_rotations_checked");
    }
}

// ---------------------------------------------------------------------------------------------------------------------------
static void case_roundtrip(const Args &a, long idx, bool wantDesc, CaseResult &res) {
    Rng R(mix(mix(a.seed, 0x7C18), (uint64_t)idx));
    int n = (int)R.ri(1, 12); int extMode = (int)R.ri(0, 9);   // 0: no external ids, 1: some missing, else all set
    auto quarter = [&](long lo, long hi) { return R.ri(lo * 4, hi * 4) / 4.0; };
    struct NRec { long ext; double cx, cy, w, h; }; std::vector<NRec> nr(n); std::set<long> usedExt;
    // "near" variant: the external ids that are set lie in the range of the internal ids the nodes are about to get, so that the writer's
    // numbering of nodes WITHOUT an external id has to steer around them (ids recorded relative to the first internal id: "k" means first+k)
    bool nearInternal = extMode == 1 && R.coin(0.6);
    for (int i = 0; i < n; i++) { long e; do { e = nearInternal ? R.ri(0, n + 4) : R.ri(0, 60); } while (usedExt.count(e)); usedExt.insert(e); bool has = extMode >= 2 || (extMode == 1 && R.coin()); nr[i] = NRec{has ? e : -1, quarter(-500, 500), quarter(-500, 500), quarter(1, 80), quarter(1, 80)}; }
    struct ERec { int s, t; std::vector<std::pair<double, double>> pts; }; std::vector<ERec> er; std::set<std::pair<int, int>> usedE;
    int m = n >= 2 ? (int)R.ri(0, std::min(14, n * (n - 1) / 2)) : 0;
    for (int t = 0; t < 60 && (int)er.size() < m; t++) { int s = (int)R.ri(0, n - 1), d = (int)R.ri(0, n - 1); if (s == d || usedE.count({std::min(s, d), std::max(s, d)})) continue; usedE.insert({std::min(s, d), std::max(s, d)}); ERec e; e.s = s; e.t = d; int k = R.coin(0.4) ? 0 : (int)R.ri(1, 5); for (int q = 0; q < k; q++) e.pts.push_back({quarter(-500, 500), quarter(-500, 500)}); er.push_back(e); }
    std::vector<PairSpec> ps; if (n >= 2) ps = genPairs(R, n, false); if (R.coin(0.15)) ps.clear();
    double extra = R.coin(0.7) ? 0 : quarter(0, 6);
    JArr nj; for (auto &x : nr) nj.raw(JArr().i(x.ext).num(x.cx).num(x.cy).num(x.w).num(x.h).done());
    if (nearInternal) res.count("graphs_with_external_ids_in_the_range_of_the_internal_ids");
    JArr ej; for (auto &e : er) { JArr p; for (auto &q : e.pts) p.num(q.first).num(q.second); ej.raw(JArr().i(e.s).i(e.t).raw(p.done()).done()); }
    std::string desc = JObj().raw("nodes_ext_cx_cy_w_h", nj.done()).raw("edges_s_t_route", ej.done()).raw("constraints", pairsJson(ps)).num("extraBdryGap", extra).b("external_ids_relative_to_first_internal_id", nearInternal).done();
    Digest D; D.s(desc); res.digest = D.h; res.gen = std::string(extMode == 0 ? "no-external-ids" : extMode == 1 ? "some-external-ids" : "external-ids") + (ps.empty() ? "" : "+constraints") + (er.empty() ? "" : "+edges");
    if (wantDesc) res.desc = desc;
    res.nontrivial = !ps.empty() && !er.empty();

    Graph G; std::vector<Node_SP> ns(n); std::vector<int> order(n); for (int i = 0; i < n; i++) order[i] = i; R.shuffle(order);
    for (int q = 0; q < n; q++) ns[order[q]] = Node::allocate();
    if (nearInternal) { id_type first = ns[order[0]]->id(); for (auto &x : nr) if (x.ext >= 0) x.ext += (long)first; }
    for (int i = 0; i < n; i++) { ns[i]->setDims(nr[i].w, nr[i].h); ns[i]->setCentre(nr[i].cx, nr[i].cy); if (nr[i].ext >= 0) ns[i]->setExternalId((unsigned)nr[i].ext); G.addNode(ns[i]); }
    for (auto &e : er) { Edge_SP ed = G.addEdge(ns[e.s], ns[e.t]); std::vector<Avoid::Point> r; for (auto &q : e.pts) r.push_back(Avoid::Point(q.first, q.second)); ed->setRoute(r); }
    SepMatrix &M = G.getSepMatrix(); M.setExtraBdryGap(extra); for (auto &p : ps) addPair(M, ns, p);
    set_stage("Graph::writeTglf"); std::string t1; try { t1 = G.writeTglf(true); } catch (std::runtime_error &e) { res.inconclusive = std::string("writer-refuses:") + e.what(); return; }
    TglfDoc d1; if (!parseTglf(t1, d1)) { res.violate("written-tglf-unparseable", JObj().str("tglf", t1).raw("case", desc).done()); return; }
    // (1) what was written is the graph that was built (independent parser, documented meaning)
    std::map<int, unsigned> extOf;   // node index -> id used in the file
    {
        if (d1.nodes.size() != (size_t)n) { res.violate("written:node-count", JObj().str("tglf", t1).raw("case", desc).done()); return; }
        std::multiset<std::array<double, 4>> want, got; for (auto &x : nr) want.insert({x.cx, x.cy, x.w, x.h}); for (auto &p : d1.nodes) got.insert({p.second.cx, p.second.cy, p.second.w, p.second.h});
        if (want != got) { res.violate("written:node-geometry-differs", JObj().str("tglf", t1).raw("case", desc).done()); return; }
        for (int i = 0; i < n; i++) { if (nr[i].ext >= 0) { if (!d1.nodes.count((unsigned)nr[i].ext)) { res.violate("written:external-id-missing", JObj().i("ext", nr[i].ext).str("tglf", t1).raw("case", desc).done()); return; } extOf[i] = (unsigned)nr[i].ext; } }
        // nodes without external ids: identified by geometry when unique
        for (int i = 0; i < n; i++) if (nr[i].ext < 0) { int hits = 0; unsigned id = 0; for (auto &p : d1.nodes) if (p.second.cx == nr[i].cx && p.second.cy == nr[i].cy && p.second.w == nr[i].w && p.second.h == nr[i].h) { hits++; id = p.first; } if (hits == 1) extOf[i] = id; }
        std::set<unsigned> distinct; for (auto &p : extOf) distinct.insert(p.second); if (distinct.size() != extOf.size()) { res.violate("written:two-nodes-share-an-id", JObj().str("tglf", t1).raw("case", desc).done()); return; }
        for (auto &p : extOf) { const Box &b = d1.nodes[p.second]; const NRec &x = nr[p.first]; if (b.cx != x.cx || b.cy != x.cy || b.w != x.w || b.h != x.h) { res.violate("written:node-geometry-under-wrong-id", JObj().i("node", p.first).str("tglf", t1).raw("case", desc).done()); return; } }
    }
    bool allIdent = extOf.size() == (size_t)n;
    if (allIdent) {
        std::multiset<std::pair<std::pair<unsigned, unsigned>, std::vector<double>>> want, got;
        for (auto &e : er) { std::vector<double> p; for (auto &q : e.pts) { p.push_back(q.first); p.push_back(q.second); } want.insert({{extOf[e.s], extOf[e.t]}, p}); }
        for (size_t i = 0; i < d1.links.size(); i++) got.insert({{d1.links[i].first, d1.links[i].second}, d1.linkPoints[i]});
        res.count("edges_compared", (long)er.size());
        if (want != got) { res.violate("written:edges-or-routes-differ", JObj().str("tglf", t1).raw("case", desc).done()); return; }
        // constraints: the written lines mean what was added (per pair, placements around the thresholds)
        for (auto &p : ps) {
            unsigned ia = extOf[p.i], ib = extOf[p.j]; std::vector<SepLine> mine;
            for (auto &s : d1.sepcos) if ((s.a == ia && s.b == ib) || (s.a == ib && s.b == ia)) mine.push_back(s);
            if (mine.empty()) { res.violate("written:constraint-missing", JObj().i("a", p.i).i("b", p.j).str("tglf", t1).raw("case", desc).done()); return; }
            int sdi = 0; for (int q = 0; q < 8; q++) if (SDS[q] == p.sd) sdi = q; int s2 = 0; for (int q = 0; q < 8; q++) if (SDS[q] == p.sd2) s2 = q;
            std::vector<SepLine> ref; SepLine r; r.a = ia; r.b = ib; r.gapType = p.gt == GapType::BDRY ? 'B' : 'C'; r.dir = SDC[sdi]; r.eq = p.st == SepType::EQ; r.gap = std::fabs(p.gap) + (p.gt == GapType::BDRY ? extra : 0);
            if (std::signbit(p.gap)) { static const char neg[8] = {'W', 'N', 'E', 'S', 'L', 'U', 'R', 'D'}; r.dir = neg[sdi]; }   // -0: "direction carried by the sign bit of the gap"
            ref.push_back(r); if (p.two) { SepLine q; q.a = ia; q.b = ib; q.gapType = 'B'; q.dir = SDC[s2]; q.eq = false; q.gap = p.gap2 + extra; ref.push_back(q); }
            const NRec &A = nr[p.i], &B = nr[p.j]; double hx = (A.w + B.w) / 2 + extra, hy = (A.h + B.h) / 2 + extra, g = std::fabs(p.gap);
            std::set<double> exact; for (double base : {0.0, g, p.gap2}) for (double h : {0.0, hx, hy}) { exact.insert(base + h); exact.insert(-(base + h)); }
            for (double dx : exact) for (double dy : exact) for (double ddx : {-0.25, 0.0, 0.25}) for (double ddy : {-0.25, 0.0, 0.25}) {
                Placement P; P[ia] = Box{A.cx, A.cy, A.w, A.h}; P[ib] = Box{A.cx + dx + ddx, A.cy + dy + ddy, B.w, B.h};
                double tol = 1e-9 * (1 + std::fabs(A.cx) + std::fabs(A.cy));
                bool sl = tglfViolation(mine, P) <= tol, sr = tglfViolation(ref, P) <= tol; res.count("constraint_placements_evaluated");
                if (sl != sr) { std::string w; for (auto &s : mine) w += s.text + "\n"; res.violate("written:constraint-means-something-else", JObj().i("a", p.i).i("b", p.j).str("written_lines", w).raw("placement", plJson(P)).raw("case", desc).done()); return; }
            }
        }
        size_t wantLines = 0; for (auto &p : ps) wantLines += 1; (void)wantLines;
        std::set<std::pair<unsigned, unsigned>> pairsWritten, pairsAdded; for (auto &s : d1.sepcos) pairsWritten.insert({std::min(s.a, s.b), std::max(s.a, s.b)}); for (auto &p : ps) pairsAdded.insert({std::min(extOf[p.i], extOf[p.j]), std::max(extOf[p.i], extOf[p.j])});
        if (pairsWritten != pairsAdded) { res.violate("written:constraints-on-pairs-never-constrained", JObj().str("tglf", t1).raw("case", desc).done()); return; }
    } else res.count("cases_with_unidentifiable_nodes(geometry only compared as a multiset)");
    // (2) read back: the API view of the new graph equals the file, and writing again reproduces the file
    set_stage("buildGraphFromTglf"); Graph_SP H = buildGraphFromTglf(t1);
    if (H->getNumNodes() != (size_t)n || H->getNumEdges() != er.size()) { res.violate("read:node-or-edge-count", JObj().i("nodes", (long)H->getNumNodes()).i("edges", (long)H->getNumEdges()).str("tglf", t1).raw("case", desc).done()); return; }
    std::map<id_type, unsigned> hid2ext;
    for (auto &p : H->getNodeLookup()) { int e = p.second->getExternalId(); if (e < 0 || !d1.nodes.count((unsigned)e)) { res.violate("read:node-without-its-file-id", JObj().i("external_id", e).str("tglf", t1).raw("case", desc).done()); return; } hid2ext[p.first] = (unsigned)e; const Box &b = d1.nodes[(unsigned)e]; auto c = p.second->getCentre(); auto dm = p.second->getDimensions(); if (c.x != b.cx || c.y != b.cy || dm.first != b.w || dm.second != b.h) { res.violate("read:node-geometry-differs", JObj().i("external_id", e).str("tglf", t1).raw("case", desc).done()); return; } }
    {
        std::multiset<std::pair<std::pair<unsigned, unsigned>, std::vector<double>>> want, got;
        for (size_t i = 0; i < d1.links.size(); i++) want.insert({{d1.links[i].first, d1.links[i].second}, d1.linkPoints[i]});
        for (auto &p : H->getEdgeLookup()) { auto ends = p.second->getEndIds(); std::vector<double> pts; for (auto &q : p.second->getRoute()) { pts.push_back(q.x); pts.push_back(q.y); } got.insert({{hid2ext[ends.first], hid2ext[ends.second]}, pts}); }
        if (want != got) { res.violate("read:edges-or-routes-differ", JObj().str("tglf", t1).raw("case", desc).done()); return; }
    }
    H->getSepMatrix().setExtraBdryGap(0);
    set_stage("Graph::writeTglf(2)"); std::string t2; try { t2 = H->writeTglf(true); } catch (std::runtime_error &e) { res.violate("read:rewritten-graph-refused", JObj().str("error", e.what()).str("tglf", t1).raw("case", desc).done()); return; }
    res.count("round_trips"); res.count("constraint_lines_round_tripped", (long)d1.sepcos.size());
    if (t2 != t1) res.violate("round-trip:write-read-write-is-not-a-fixed-point", JObj().str("first", t1).str("second", t2).raw("case", desc).done());
}

int main(int argc, char **argv) {
    return harness_main(argc, argv, "c18_dialect", [](const Args &a, long idx, bool wantDesc, CaseResult &res) {
        if (a.mode == "table") case_table(a, idx, wantDesc, res);
        else if (a.mode == "subset") case_subset(a, idx, wantDesc, res);
        else if (a.mode == "roundtrip") case_roundtrip(a, idx, wantDesc, res);
        else res.inconclusive = "unknown-mode";
    });
}
