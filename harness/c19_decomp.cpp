// C19: libdialect -- graph decompositions partition the graph and planarise it.
//   peel       random connected simple graphs (<= 60 nodes; trees, cycles, cores with hanging trees, hubs, dense cores, single/double-centre
//              trees): peel() against an independent 2-core computation; every Tree then laid out with Tree::symmetricLayout() and checked
//              for node overlap; unions of several graphs through Graph::getConnComps().
//   planarise  graphs with own axis-parallel routes on a 10-unit lattice (L, Z and U shapes, many crossings, shared sub-routes, T contacts):
//              OrthoPlanariser::planarise() -- no two edges of the result cross or overlap, every original node is still there and reaches
//              each former neighbour through a chain of new nodes.
#include "dialect_common.h"
#include "libdialect/peeling.h"
#include "libdialect/trees.h"
#include "libdialect/planarise.h"
#include <queue>

using namespace dc;
using namespace dialect;

typedef std::pair<id_type, id_type> IdPair;
static IdPair norm(id_type a, id_type b) { return a < b ? IdPair(a, b) : IdPair(b, a); }

static void buildGraph(Graph &G, int n, const std::set<std::pair<int, int>> &E, Rng &R, std::vector<Node_SP> &ns) {
    for (int i = 0; i < n; i++) { Node_SP u = Node::allocate(); u->setDims(R.rd(8, 40), R.rd(8, 40)); u->setCentre(R.rd(0, 400), R.rd(0, 400)); G.addNode(u); ns.push_back(u); }
    for (auto &e : E) G.addEdge(ns[e.first], ns[e.second]);
}
static std::string edgesJson(const std::set<std::pair<int, int>> &E) { JArr a; for (auto &e : E) a.raw(JArr().i(e.first).i(e.second).done()); return a.done(); }

static bool connectedAcyclic(const std::set<id_type> &nodes, const std::multiset<IdPair> &edges, bool &acyclic) {
    std::map<id_type, std::vector<id_type>> adj; for (auto &e : edges) { adj[e.first].push_back(e.second); adj[e.second].push_back(e.first); }
    acyclic = edges.size() + 1 == nodes.size();
    if (nodes.empty()) return true;
    std::set<id_type> seen; std::queue<id_type> q; q.push(*nodes.begin()); seen.insert(*nodes.begin());
    while (!q.empty()) { id_type u = q.front(); q.pop(); for (id_type v : adj[u]) if (!seen.count(v)) { seen.insert(v); q.push(v); } }
    return seen.size() == nodes.size();
}

static void case_peel(const Args &a, long idx, bool wantDesc, CaseResult &res) {
    Rng R(mix(mix(a.seed, 0xC19), (uint64_t)idx));
    int variant = (int)R.ri(0, 9);   // 0-6: peel a connected graph, 7: path/star/double-centre trees, 8-9: connected components of a union
    if (variant >= 8) {
        int k = (int)R.ri(1, 5); std::vector<int> sizes; std::vector<std::set<std::pair<int, int>>> Es; JArr dj;
        Graph G; std::vector<std::vector<Node_SP>> parts; size_t totalEdges = 0;
        for (int c = 0; c < k; c++) { int n; std::set<std::pair<int, int>> E; std::string kind; gen_graph(R, n, E, kind); if (n > 25) { n = 25; std::set<std::pair<int, int>> E2; for (int i = 1; i < n; i++) E2.insert({(int)R.ri(0, i - 1), i}); E = E2; } if (R.coin(0.15)) { n = 1; E.clear(); }
            std::vector<Node_SP> ns; buildGraph(G, n, E, R, ns); parts.push_back(ns); totalEdges += E.size(); dj.raw(JObj().i("n", n).raw("edges", edgesJson(E)).done()); }
        std::string desc = JObj().str("operation", "getConnComps").raw("components", dj.done()).done();
        Digest D; D.s(desc); res.digest = D.h; res.gen = "connected-components"; if (wantDesc) res.desc = desc; res.nontrivial = k >= 2;
        set_stage("getConnComps"); Graphs comps = G.getConnComps();
        res.count("component_extractions"); res.count("components_expected", k);
        if ((int)comps.size() != k) { res.violate("conncomps:wrong-number-of-components", JObj().i("got", (long)comps.size()).i("expected", k).raw("case", desc).done()); return; }
        std::map<id_type, int> owner; for (int c = 0; c < k; c++) for (auto &u : parts[c]) owner[u->id()] = c;
        std::set<id_type> seenNodes; std::set<id_type> seenEdges; std::set<int> partsSeen;
        for (auto &C : comps) {
            int part = -1;
            for (auto &p : C->getNodeLookup()) { if (!owner.count(p.first)) { res.violate("conncomps:foreign-node", JObj().raw("case", desc).done()); return; } if (!seenNodes.insert(p.first).second) { res.violate("conncomps:node-in-two-components", JObj().i("node", p.first).raw("case", desc).done()); return; } int o = owner[p.first]; if (part < 0) part = o; else if (part != o) { res.violate("conncomps:component-mixes-two-parts", JObj().raw("case", desc).done()); return; } }
            if (part < 0 || !partsSeen.insert(part).second) { res.violate("conncomps:part-split-or-empty-component", JObj().raw("case", desc).done()); return; }
            if (C->getNumNodes() != parts[part].size()) { res.violate("conncomps:component-misses-nodes", JObj().i("part", part).raw("case", desc).done()); return; }
            for (auto &p : C->getEdgeLookup()) { auto ends = p.second->getEndIds(); if (!C->hasNode(ends.first) || !C->hasNode(ends.second)) { res.violate("conncomps:edge-leaves-its-component", JObj().raw("case", desc).done()); return; } if (!seenEdges.insert(p.first).second) { res.violate("conncomps:edge-in-two-components", JObj().raw("case", desc).done()); return; } }
        }
        if (seenNodes.size() != owner.size() || seenEdges.size() != totalEdges) res.violate("conncomps:nodes-or-edges-lost", JObj().i("nodes_seen", (long)seenNodes.size()).i("edges_seen", (long)seenEdges.size()).i("edges_expected", (long)totalEdges).raw("case", desc).done());
        return;
    }
    int n; std::set<std::pair<int, int>> E; std::string kind;
    if (variant == 7) { int t = (int)R.ri(0, 3); n = (int)R.ri(1, 30);
        if (t == 0) { kind = "path"; for (int i = 1; i < n; i++) E.insert({i - 1, i}); }
        else if (t == 1) { kind = "star"; for (int i = 1; i < n; i++) E.insert({0, i}); }
        else if (t == 2) { kind = "double-centre-tree"; n = std::max(2, n / 2 * 2); int h = n / 2; E.insert({0, h}); for (int i = 1; i < h; i++) { E.insert({(int)R.ri(0, i - 1), i}); } for (int i = 1; i < h; i++) { int p = -1; for (auto &e : E) if (e.second == i && e.first < h) p = e.first; E.insert({h + p, h + i}); } }
        else { kind = "caterpillar"; int spine = std::max(1, n / 3); for (int i = 1; i < spine; i++) E.insert({i - 1, i}); for (int i = spine; i < n; i++) E.insert({(int)R.ri(0, spine - 1), i}); }
    } else gen_graph(R, n, E, kind);
    std::string desc = JObj().str("operation", "peel").str("kind", kind).i("n", n).raw("edges", edgesJson(E)).done();
    Digest D; D.s(desc); res.digest = D.h; res.gen = "peel/" + kind; if (wantDesc) res.desc = desc;
    Graph G; std::vector<Node_SP> ns; buildGraph(G, n, E, R, ns);
    std::map<id_type, int> ixOf; for (int i = 0; i < n; i++) ixOf[ns[i]->id()] = i;
    // independent reference: the 2-core by repeated leaf removal on plain adjacency sets
    std::vector<std::set<int>> adj(n); for (auto &e : E) { adj[e.first].insert(e.second); adj[e.second].insert(e.first); }
    std::vector<bool> alive(n, true); { bool ch = true; while (ch) { ch = false; for (int i = 0; i < n; i++) if (alive[i] && adj[i].size() <= 1) { int cnt = 0; for (int j = 0; j < n; j++) cnt += alive[j]; if (adj[i].size() == 0 && cnt == 1) continue; alive[i] = false; for (int j : adj[i]) adj[j].erase(i); adj[i].clear(); ch = true; } } }
    int coreSize = 0; for (int i = 0; i < n; i++) coreSize += alive[i]; bool isTree = (int)E.size() == n - 1;
    res.nontrivial = !isTree && coreSize < n;
    std::multiset<IdPair> inputEdges; for (auto &e : E) inputEdges.insert(norm(ns[e.first]->id(), ns[e.second]->id()));
    set_stage("peel"); Trees trees = peel(G);
    res.count("graphs_peeled"); res.count("trees_returned", (long)trees.size());
    auto wit = [&](JObj o) { JArr cn; for (auto &p : G.getNodeLookup()) cn.i(ixOf.count(p.first) ? ixOf[p.first] : -1); JArr tj; for (auto &t : trees) { JArr tn; for (auto &p : t->underlyingGraph()->getNodeLookup()) tn.i(ixOf.count(p.second->id()) ? ixOf[p.second->id()] : -1); tj.raw(JObj().i("root", ixOf.count(t->getRootNodeID()) ? ixOf[t->getRootNodeID()] : -1).raw("nodes", tn.done()).done()); } return o.raw("core_nodes", cn.done()).raw("trees", tj.done()).raw("case", desc).done(); };
    // nodes
    std::map<id_type, int> inTrees; std::set<id_type> core; for (auto &p : G.getNodeLookup()) { if (!ixOf.count(p.first)) { res.violate("peel:foreign-node-in-core", wit(JObj())); return; } core.insert(p.first); }
    std::multiset<IdPair> partEdges;
    for (auto &p : G.getEdgeLookup()) { auto ends = p.second->getEndIds(); if (!core.count(ends.first) || !core.count(ends.second)) { res.violate("peel:core-edge-with-end-outside-core", wit(JObj())); return; } partEdges.insert(norm(ends.first, ends.second)); }
    std::map<id_type, int> coreDeg; for (auto &e : partEdges) { coreDeg[e.first]++; coreDeg[e.second]++; }
    for (auto &t : trees) {
        Graph_SP tg = t->underlyingGraph(); std::set<id_type> tn; std::multiset<IdPair> te; id_type root = t->getRootNodeID();
        for (auto &p : tg->getNodeLookup()) { id_type id = p.second->id(); if (!ixOf.count(id)) { res.violate("peel:foreign-node-in-tree", wit(JObj())); return; } tn.insert(id); inTrees[id]++; if (id != root && core.count(id)) { res.violate("peel:non-root-tree-node-also-in-core", wit(JObj().i("node", ixOf[id]))); return; } }
        if (!tn.count(root)) { res.violate("peel:tree-root-not-in-tree", wit(JObj())); return; }
        if (!core.empty() && !core.count(root)) { res.violate("peel:tree-root-not-in-core", wit(JObj().i("root", ixOf[root]))); return; }
        for (auto &p : tg->getEdgeLookup()) { id_type s = p.second->getSourceEnd()->id(), d = p.second->getTargetEnd()->id(); if (!tn.count(s) || !tn.count(d)) { res.violate("peel:tree-edge-with-end-outside-tree", wit(JObj())); return; } te.insert(norm(s, d)); partEdges.insert(norm(s, d)); }
        bool acyclic; bool conn = connectedAcyclic(tn, te, acyclic);
        if (!conn || !acyclic) { res.violate(conn ? "peel:tree-has-a-cycle" : "peel:tree-not-connected", wit(JObj().i("tree_nodes", (long)tn.size()).i("tree_edges", (long)te.size()))); return; }
        if (tn.size() < 2) { res.violate("peel:tree-without-an-edge", wit(JObj())); return; }
        res.count("tree_nodes_checked", (long)tn.size());
    }
    for (auto &p : inTrees) if (p.second > 1) { res.violate("peel:node-in-two-trees", wit(JObj().i("node", ixOf[p.first]))); return; }
    for (int i = 0; i < n; i++) if (!core.count(ns[i]->id()) && !inTrees.count(ns[i]->id())) { res.violate("peel:node-lost", wit(JObj().i("node", i))); return; }
    if (partEdges != inputEdges) { res.violate("peel:edges-not-partitioned", wit(JObj().i("edges_in_parts", (long)partEdges.size()).i("edges_in_input", (long)inputEdges.size()))); return; }
    for (auto &p : coreDeg) if (p.second == 1) { res.violate("peel:core-has-a-leaf", wit(JObj().i("node", ixOf[p.first]))); return; }
    if (!isTree) { std::set<id_type> want; for (int i = 0; i < n; i++) if (alive[i]) want.insert(ns[i]->id()); if (want != core) { res.violate("peel:core-differs-from-2-core", wit(JObj().i("two_core_size", (long)want.size()))); return; } }
    else if (core.size() > 1) { res.violate("peel:tree-input-leaves-more-than-its-root", wit(JObj())); return; }
    // symmetric layout of every tree: no two tree nodes on top of each other
    for (auto &t : trees) {
        Graph_SP tg = t->underlyingGraph(); double maxDim = 0; for (auto &p : tg->getNodeLookup()) { auto d = p.second->getDimensions(); maxDim = std::max(maxDim, std::max(d.first, d.second)); }
        CardinalDir gd = (CardinalDir)R.ri(0, 3); double nodeSep = R.coin(0.2) ? 0 : R.rd(0, 30), rankSep = maxDim + R.rd(0, 40); bool convex = R.coin();
        set_stage("Tree::symmetricLayout"); t->symmetricLayout(gd, nodeSep, rankSep, convex);
        res.count("trees_laid_out");
        std::vector<std::pair<id_type, Box>> bs; for (auto &p : tg->getNodeLookup()) { auto c = p.second->getCentre(); auto d = p.second->getDimensions(); bs.push_back({p.second->id(), Box{c.x, c.y, d.first, d.second}}); }
        for (size_t i = 0; i < bs.size(); i++) for (size_t j = i + 1; j < bs.size(); j++) {
            const Box &A = bs[i].second, &B = bs[j].second; double ox = std::min(A.cx + A.w / 2, B.cx + B.w / 2) - std::max(A.cx - A.w / 2, B.cx - B.w / 2), oy = std::min(A.cy + A.h / 2, B.cy + B.h / 2) - std::max(A.cy - A.h / 2, B.cy - B.h / 2);
            res.count("tree_node_pairs_checked");
            if (ox > 1e-6 && oy > 1e-6) { JArr lj; for (auto &b : bs) lj.raw(JArr().i(ixOf[b.first]).num(b.second.cx).num(b.second.cy).num(b.second.w).num(b.second.h).done()); res.violate("symmetric-layout:tree-nodes-overlap", JObj().i("a", ixOf[bs[i].first]).i("b", ixOf[bs[j].first]).num("overlap_x", ox).num("overlap_y", oy).i("growthDir", (int)gd).num("nodeSep", nodeSep).num("rankSep", rankSep).b("convexOrdering", convex).raw("layout_node_cx_cy_w_h", lj.done()).raw("case", desc).done()); return; }
        }
    }
}

// ---------------------------------------------------------------------------------------------------------------------------
struct Seg { double x1, y1, x2, y2; };
static bool segThroughBox(const Seg &s, double cx, double cy, double half) { double lx = std::min(s.x1, s.x2), hx = std::max(s.x1, s.x2), ly = std::min(s.y1, s.y2), hy = std::max(s.y1, s.y2); return lx < cx + half && hx > cx - half && ly < cy + half && hy > cy - half; }

static void case_planarise(const Args &a, long idx, bool wantDesc, CaseResult &res) {
    Rng R(mix(mix(a.seed, 0x9C19), (uint64_t)idx));
    int n = (int)R.ri(2, 14); int span = (int)R.ri(3, 8);   // node centres on odd multiples of 10 within span x span cells
    std::set<std::pair<int, int>> cells; std::vector<std::pair<double, double>> pos;
    for (int t = 0; t < 200 && (int)pos.size() < n; t++) { int cx = (int)R.ri(0, span - 1), cy = (int)R.ri(0, span - 1); if (cells.insert({cx, cy}).second) pos.push_back({20.0 * cx + 10, 20.0 * cy + 10}); }
    n = (int)pos.size(); if (n < 2) { res.inconclusive = "too-few-nodes"; return; }
    struct ER { int s, t; std::vector<std::pair<double, double>> route; }; std::vector<ER> er; std::set<std::pair<int, int>> used;
    int m = (int)R.ri(1, std::min(3 * n, n * (n - 1) / 2));
    auto clear = [&](const std::vector<std::pair<double, double>> &r, int s, int t) { for (size_t i = 1; i < r.size(); i++) { Seg sg{r[i - 1].first, r[i - 1].second, r[i].first, r[i].second}; if (sg.x1 != sg.x2 && sg.y1 != sg.y2) return false; if (sg.x1 == sg.x2 && sg.y1 == sg.y2) return false; for (int k = 0; k < n; k++) if (k != s && k != t && segThroughBox(sg, pos[k].first, pos[k].second, 3)) return false; }
        // the route may not double back over itself or pass through its own end nodes again
        for (size_t i = 2; i < r.size(); i++) { bool h1 = r[i - 2].second == r[i - 1].second, h2 = r[i - 1].second == r[i].second; if (h1 == h2) return false; }
        return true; };
    for (int tries = 0; tries < 6 * m && (int)er.size() < m; tries++) {
        int s = (int)R.ri(0, n - 1), t = (int)R.ri(0, n - 1); if (s == t || used.count({std::min(s, t), std::max(s, t)})) continue;
        double xs = pos[s].first, ys = pos[s].second, xt = pos[t].first, yt = pos[t].second; std::vector<std::vector<std::pair<double, double>>> opts;
        if (xs == xt || ys == yt) { opts.push_back({{xs, ys}, {xt, yt}}); double off = 20.0 * R.ri(-2, 2) + (R.coin() ? 10 : -10); if (xs == xt) opts.push_back({{xs, ys}, {xs + off, ys}, {xs + off, yt}, {xt, yt}}); else opts.push_back({{xs, ys}, {xs, ys + off}, {xt, ys + off}, {xt, yt}}); }
        else { opts.push_back({{xs, ys}, {xt, ys}, {xt, yt}}); opts.push_back({{xs, ys}, {xs, yt}, {xt, yt}});
               double xm = 20.0 * R.ri((long)std::min(xs, xt) / 20 + 1, (long)std::max(xs, xt) / 20), ym = 20.0 * R.ri((long)std::min(ys, yt) / 20 + 1, (long)std::max(ys, yt) / 20);
               opts.push_back({{xs, ys}, {xm, ys}, {xm, yt}, {xt, yt}}); opts.push_back({{xs, ys}, {xs, ym}, {xt, ym}, {xt, yt}}); }
        R.shuffle(opts); for (auto &o : opts) if (clear(o, s, t)) { er.push_back(ER{s, t, o}); used.insert({std::min(s, t), std::max(s, t)}); break; }
    }
    if (er.empty()) { res.inconclusive = "no-routable-edge"; return; }
    // non-simplified routes: extra route points in the middle of straight runs, at lattice positions where other routes may cross
    std::set<std::pair<double, double>> extraH, extraV; int collinear = R.coin(0.35) ? (int)R.ri(1, 3) : 0;   // 1: on horizontal runs, 2: on vertical runs, 3: both
    bool dense = R.coin(0.3); long budget = dense ? 1000 : R.ri(1, 3);
    if (collinear) { std::vector<size_t> order(er.size()); for (size_t i = 0; i < order.size(); i++) order[i] = i; R.shuffle(order);
      for (size_t oi : order) { auto &e = er[oi]; std::vector<std::pair<double, double>> r2; r2.push_back(e.route[0]);
        for (size_t i = 1; i < e.route.size(); i++) { auto A = e.route[i - 1], B = e.route[i]; bool h = A.second == B.second; double len = h ? B.first - A.first : B.second - A.second; int steps = (int)std::lround(std::fabs(len) / 10);
            if ((h && (collinear & 1)) || (!h && (collinear & 2))) for (int k = 1; k < steps; k++) if (budget > 0 && R.coin(dense ? 0.3 : 0.5)) { double d = (len > 0 ? 10.0 : -10.0) * k; std::pair<double, double> q = h ? std::make_pair(A.first + d, A.second) : std::make_pair(A.first, A.second + d); r2.push_back(q); (h ? extraH : extraV).insert(q); budget--; }
            r2.push_back(B); }
        e.route = r2; } }
    JArr nj; for (auto &p : pos) nj.raw(JArr().num(p.first).num(p.second).done());
    JArr ej; for (auto &e : er) { JArr r; for (auto &q : e.route) r.raw(JArr().num(q.first).num(q.second).done()); ej.raw(JObj().i("s", e.s).i("t", e.t).raw("route", r.done()).done()); }
    std::string desc = JObj().str("operation", "OrthoPlanariser::planarise").raw("node_centres(6x6 boxes)", nj.done()).raw("edges", ej.done()).done();
    Digest D; D.s(desc); res.digest = D.h; if (wantDesc) res.desc = desc;
    // count proper crossings of the input routes (for non-triviality)
    long crossings = 0; std::vector<std::pair<int, Seg>> segs; for (size_t e = 0; e < er.size(); e++) for (size_t i = 1; i < er[e].route.size(); i++) segs.push_back({(int)e, Seg{er[e].route[i - 1].first, er[e].route[i - 1].second, er[e].route[i].first, er[e].route[i].second}});
    for (size_t i = 0; i < segs.size(); i++) for (size_t j = i + 1; j < segs.size(); j++) if (segs[i].first != segs[j].first) { const Seg &A = segs[i].second, &B = segs[j].second; bool ah = A.y1 == A.y2, bh = B.y1 == B.y2; if (ah == bh) continue; const Seg &H = ah ? A : B, &V = ah ? B : A; if (V.x1 > std::min(H.x1, H.x2) && V.x1 < std::max(H.x1, H.x2) && H.y1 > std::min(V.y1, V.y2) && H.y1 < std::max(V.y1, V.y2)) crossings++; }
    res.gen = crossings == 0 ? "no-crossings" : crossings < 4 ? "few-crossings" : "many-crossings"; if (!extraH.empty() || !extraV.empty()) { res.gen += "+collinear-route-points"; res.count("routes_with_collinear_interior_points_cases"); } res.nontrivial = crossings > 0; res.count("input_route_crossings", crossings);
    Graph_SP G = std::make_shared<Graph>(); std::vector<Node_SP> ns;
    for (int i = 0; i < n; i++) { Node_SP u = Node::allocate(); u->setDims(6, 6); u->setCentre(pos[i].first, pos[i].second); G->addNode(u); ns.push_back(u); }
    for (auto &e : er) { Edge_SP ed = G->addEdge(ns[e.s], ns[e.t]); std::vector<Avoid::Point> r; for (auto &q : e.route) r.push_back(Avoid::Point(q.first, q.second)); ed->setRoute(r); }
    std::map<id_type, int> ixOf; for (int i = 0; i < n; i++) ixOf[ns[i]->id()] = i;
    OrthoPlanariserOptions po; po.generateConstraints = R.coin();
    set_stage("OrthoPlanariser::planarise"); OrthoPlanariser op(G); op.setOpts(po); Graph_SP Q = op.planarise();
    res.count("graphs_planarised");
    auto wit = [&](JObj o) { JArr qn; for (auto &p : Q->getNodeLookup()) { auto c = p.second->getCentre(); qn.raw(JArr().i(ixOf.count(p.second->id()) ? ixOf[p.second->id()] : -1).i(p.second->id()).num(c.x).num(c.y).done()); } JArr qe; for (auto &p : Q->getEdgeLookup()) { auto ends = p.second->getEndIds(); qe.raw(JArr().i(ends.first).i(ends.second).done()); } return o.raw("result_nodes_ix_id_x_y", qn.done()).raw("result_edges_by_id", qe.done()).raw("case", desc).done(); };
    // every original node still present, at its position
    for (int i = 0; i < n; i++) { if (!Q->hasNode(ns[i]->id())) { res.violate("planarise:original-node-missing", wit(JObj().i("node", i))); return; } auto c = Q->getNode(ns[i]->id())->getCentre(); if (std::fabs(c.x - pos[i].first) > 1e-9 || std::fabs(c.y - pos[i].second) > 1e-9) { res.violate("planarise:original-node-moved", wit(JObj().i("node", i))); return; } }
    // geometry of the result's edges: straight centre-to-centre unless the edge carries a route
    struct QE { id_type s, t; std::vector<Seg> segs; }; std::vector<QE> qes; std::map<id_type, std::vector<id_type>> qadj;
    for (auto &p : Q->getEdgeLookup()) { Node_SP s = p.second->getSourceEnd(), t = p.second->getTargetEnd(); QE q; q.s = s->id(); q.t = t->id(); std::vector<Avoid::Point> pts; auto r = p.second->getRoute(); if (r.size() >= 2) pts = r; else { pts.push_back(s->getCentre()); pts.push_back(t->getCentre()); }
        for (size_t i = 1; i < pts.size(); i++) q.segs.push_back(Seg{pts[i - 1].x, pts[i - 1].y, pts[i].x, pts[i].y}); qes.push_back(q); qadj[q.s].push_back(q.t); qadj[q.t].push_back(q.s); }
    res.count("result_edges_checked", (long)qes.size());
    for (auto &q : qes) for (auto &s : q.segs) if (std::fabs(s.x1 - s.x2) > 1e-9 && std::fabs(s.y1 - s.y2) > 1e-9) { res.violate("planarise:result-edge-not-axis-parallel", wit(JObj().i("s", q.s).i("t", q.t))); return; }
    // no two edges cross or overlap: two edges may meet only in a common end node
    auto inter = [&](const Seg &A, const Seg &B, double &lx, double &ly, double &hx, double &hy) { lx = std::max(std::min(A.x1, A.x2), std::min(B.x1, B.x2)); hx = std::min(std::max(A.x1, A.x2), std::max(B.x1, B.x2)); ly = std::max(std::min(A.y1, A.y2), std::min(B.y1, B.y2)); hy = std::min(std::max(A.y1, A.y2), std::max(B.y1, B.y2)); return lx <= hx + 1e-9 && ly <= hy + 1e-9; };
    for (size_t i = 0; i < qes.size(); i++) for (size_t j = i + 1; j < qes.size(); j++) for (auto &A : qes[i].segs) for (auto &B : qes[j].segs) {
        double lx, ly, hx, hy; res.count("result_edge_pairs_checked"); if (!inter(A, B, lx, ly, hx, hy)) continue;
        bool point = hx - lx <= 1e-9 && hy - ly <= 1e-9; bool ok = false;
        if (point) { // both edges must END there (normally at a common node; a collinear route point that is also a crossing gets a bend node and a crossing node on the same spot, which is
                     // counted below as an observation but is not a crossing: neither edge continues through the point)
            auto endsAt = [&](const QE &q) { for (id_type c : {q.s, q.t}) { auto p = Q->getNode(c)->getCentre(); if (std::fabs(p.x - lx) <= 1e-6 && std::fabs(p.y - ly) <= 1e-6) return true; } return false; };
            ok = endsAt(qes[i]) && endsAt(qes[j]);
            if (ok) { bool common = false; for (id_type c : {qes[i].s, qes[i].t}) if (c == qes[j].s || c == qes[j].t) common = true; if (!common) res.count("edge_pairs_meeting_at_two_coincident_nodes"); } }
        std::string tag; if (extraH.count({lx, ly}) || extraH.count({hx, hy})) tag = "[at-a-collinear-route-point-of-a-horizontal-run]"; else if (extraV.count({lx, ly}) || extraV.count({hx, hy})) tag = "[at-a-collinear-route-point-of-a-vertical-run]"; else if (!extraH.empty() || !extraV.empty()) tag = "[routes-have-collinear-points-elsewhere]";
        if (!ok) { res.violate(std::string(point ? "planarise:two-result-edges-cross" : "planarise:two-result-edges-overlap") + tag, wit(JObj().raw("edge_a", JArr().i(qes[i].s).i(qes[i].t).done()).raw("edge_b", JArr().i(qes[j].s).i(qes[j].t).done()).raw("where", JArr().num(lx).num(ly).num(hx).num(hy).done()))); return; }
    }
    // former neighbours still connected through chains of new nodes only
    for (auto &e : er) {
        id_type s = ns[e.s]->id(), t = ns[e.t]->id(); std::set<id_type> seen{s}; std::queue<id_type> q; q.push(s); bool found = false;
        while (!q.empty() && !found) { id_type u = q.front(); q.pop(); for (id_type v : qadj[u]) { if (v == t) { found = true; break; } if (ixOf.count(v) || seen.count(v)) continue; seen.insert(v); q.push(v); } }
        res.count("former_neighbour_pairs_checked");
        if (!found) { res.violate("planarise:former-neighbours-no-longer-connected-through-new-nodes", wit(JObj().i("s", e.s).i("t", e.t))); return; }
    }
}

int main(int argc, char **argv) {
    return harness_main(argc, argv, "c19_decomp", [](const Args &a, long idx, bool wantDesc, CaseResult &res) {
        if (a.mode == "peel") case_peel(a, idx, wantDesc, res);
        else if (a.mode == "planarise") case_planarise(a, idx, wantDesc, res);
        else res.inconclusive = "unknown-mode";
    });
}
