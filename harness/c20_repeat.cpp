// C20: results are reproducible, and routing / VPSC are independent of the frame.
//   route-repeat  the same scene routed twice in one process; in between the heap is churned (blocks of the sizes of the library's own
//                 objects filled with different byte patterns and freed) and an unrelated scene is routed: routes must be bit-identical.
//   route-frame   the scene translated by multiples of 2^-10 (routes must translate with it) and mapped by each of the eight symmetries
//                 of the square (every route's cost must stay the same).
//   vpsc          IncSolver / Solver: repeated run with heap churn (bit-identical), translated desired positions (solution translates),
//                 variables and constraints relabelled and reordered (same solution).
//   layout        ConstrainedFDLayout / ConstrainedMajorizationLayout / removeoverlaps twice on equal inputs, the second time with the
//                 rectangles allocated in a different address order, and doHOLA twice on equal graphs: positions equal to 1e-9.
#include "avoid_scene.h"
#include <array>
#include "libvpsc/solve_VPSC.h"
#include "libvpsc/variable.h"
#include "libvpsc/constraint.h"
#include "libvpsc/exceptions.h"
#include "libvpsc/rectangle.h"
#include "libcola/cola.h"
#include "libdialect/graphs.h"
#include "libdialect/hola.h"
#include "libdialect/opts.h"
#include "libavoid/vertices.h"
#include "libavoid/graph.h"

using namespace av;

// ---------------------------------------------------------------- heap churn
static void churn(Rng &R, unsigned char pattern) {
    static const size_t sizes[] = {sizeof(Avoid::Router), sizeof(Avoid::ConnRef), sizeof(Avoid::ShapeRef), sizeof(Avoid::VertInf), sizeof(Avoid::EdgeInf), sizeof(Avoid::JunctionRef),
                                   sizeof(vpsc::Variable), sizeof(vpsc::Constraint), sizeof(vpsc::Block), sizeof(vpsc::Rectangle), sizeof(cola::ConstrainedFDLayout), 16, 24, 32, 48, 64, 96, 128, 256, 512, 1024, 4096, 16384};
    std::vector<std::pair<void *, size_t>> blocks;
    for (size_t s : sizes) { int k = s > 2000 ? 3 : 12; for (int i = 0; i < k; i++) { void *p = malloc(s); if (p) { memset(p, pattern, s); blocks.push_back({p, s}); } } }
    int extra = (int)R.ri(0, 60); for (int i = 0; i < extra; i++) { size_t s = (size_t)R.ri(8, 3000); void *p = malloc(s); if (p) { memset(p, pattern, s); blocks.push_back({p, s}); } }
    R.shuffle(blocks); for (auto &b : blocks) free(b.first);
}

// ---------------------------------------------------------------- scenes in a frame
struct Xf { int a, b, c, d; const char *name; };
static const Xf D4[8] = {{1, 0, 0, 1, "identity"}, {0, -1, 1, 0, "quarter-turn"}, {-1, 0, 0, -1, "half-turn"}, {0, 1, -1, 0, "three-quarter-turn"},
                         {-1, 0, 0, 1, "mirror-x"}, {1, 0, 0, -1, "mirror-y"}, {0, 1, 1, 0, "transpose"}, {0, -1, -1, 0, "anti-transpose"}};
static unsigned mapDirs(unsigned dirs, const Xf &t) {
    if (dirs == Avoid::ConnDirAll || dirs == Avoid::ConnDirNone) return dirs;
    static const int vx[4] = {0, 0, -1, 1}, vy[4] = {-1, 1, 0, 0}; static const unsigned fl[4] = {Avoid::ConnDirUp, Avoid::ConnDirDown, Avoid::ConnDirLeft, Avoid::ConnDirRight};
    unsigned out = 0; for (int k = 0; k < 4; k++) if (dirs & fl[k]) { int X = t.a * vx[k] + t.b * vy[k], Y = t.c * vx[k] + t.d * vy[k]; for (int q = 0; q < 4; q++) if (vx[q] == X && vy[q] == Y) out |= fl[q]; }
    return out;
}
static void buildX(const Scene &S, Built &B, const Xf &t, double ox, double oy) {
    B.router = new Avoid::Router(S.orthogonal ? Avoid::OrthogonalRouting : Avoid::PolyLineRouting);
    for (auto &kv : S.params) B.router->setRoutingParameter((Avoid::RoutingParameter)kv.first, kv.second);
    for (auto &kv : S.options) B.router->setRoutingOption((Avoid::RoutingOption)kv.first, kv.second);
    bool reflect = t.a * t.d - t.b * t.c < 0;
    auto P = [&](IP p) { return Avoid::Point((double)(t.a * p.x + t.b * p.y) + ox, (double)(t.c * p.x + t.d * p.y) + oy); };
    for (auto &s : S.shapes) { size_t n = s.poly.size(); Avoid::Polygon pg((int)n); for (size_t i = 0; i < n; i++) pg.ps[i] = P(s.poly[reflect ? n - 1 - i : i]); B.shapes.push_back(new Avoid::ShapeRef(B.router, pg)); }
    for (auto &c : S.conns) {
        Avoid::ConnEnd a(P(c.src), mapDirs(c.srcDirs, t)), b(P(c.dst), mapDirs(c.dstDirs, t));
        Avoid::ConnRef *cr = new Avoid::ConnRef(B.router, a, b); cr->setRoutingType(S.orthogonal ? Avoid::ConnType_Orthogonal : Avoid::ConnType_PolyLine); B.conns.push_back(cr);
    }
}
typedef std::vector<std::vector<std::pair<double, double>>> Routes;
static void collect(Built &B, Routes &disp, Routes &raw) {
    for (auto c : B.conns) { std::vector<std::pair<double, double>> d, r; const Avoid::PolyLine &dr = c->displayRoute(); for (size_t i = 0; i < dr.size(); i++) d.push_back({dr.ps[i].x, dr.ps[i].y}); const Avoid::PolyLine &rr = c->route(); for (size_t i = 0; i < rr.size(); i++) r.push_back({rr.ps[i].x, rr.ps[i].y}); disp.push_back(d); raw.push_back(r); }
}
static std::string routesJson(const Routes &R) { JArr a; for (auto &r : R) { JArr q; for (auto &p : r) q.raw(JArr().num(p.first).num(p.second).done()); a.raw(q.done()); } return a.done(); }

static void genScene(Rng &R, Scene &S, bool simpleCost) {
    S.orthogonal = R.coin(0.5); int regime = (int)R.ri(0, 2);
    bool polys = !S.orthogonal && R.coin(0.5);
    if (regime == 1) { genTouching(R, S, (int)R.ri(2, 12), polys); S.regime = "touching"; }
    else { genSeparated(R, S, (int)R.ri(1, regime == 2 ? 25 : 8), regime == 2 ? 300 : 400, regime == 2 ? 1 : 6, polys, regime == 2 ? 25 : 50); S.regime = regime == 2 ? "dense" : "separated"; }
    int nc = (int)R.ri(1, simpleCost ? 3 : 6);
    for (int c = 0; c < nc; c++) { ConnSpec cs; if (!genFreeEndpoints(R, S, 0, 420, S.orthogonal ? 1 : 0, cs.src, cs.dst)) continue; if (S.orthogonal && R.coin(0.3)) { cs.srcDirs = 1u << R.ri(0, 3); if (R.coin()) cs.dstDirs = 1u << R.ri(0, 3); } S.conns.push_back(cs); }
    S.params[Avoid::segmentPenalty] = S.orthogonal ? (double)std::vector<int>{1, 10, 50}[R.ri(0, 2)] : (R.coin(0.6) ? 0.0 : (double)R.ri(1, 60));
    if (!simpleCost) {
        if (R.coin(0.3)) S.params[Avoid::shapeBufferDistance] = (double)R.ri(1, 5);
        if (S.orthogonal) S.params[Avoid::idealNudgingDistance] = (double)R.ri(1, 8);
        if (R.coin(0.3)) S.params[Avoid::crossingPenalty] = (double)R.ri(1, 300);
        if (!S.orthogonal && R.coin(0.2)) S.params[Avoid::anglePenalty] = (double)R.ri(1, 50);
        if (R.coin(0.2)) S.params[Avoid::fixedSharedPathPenalty] = (double)R.ri(1, 200);
        if (S.orthogonal && R.coin(0.3)) S.options[Avoid::nudgeOrthogonalSegmentsConnectedToShapes] = true;
        if (S.orthogonal && R.coin(0.3)) S.options[Avoid::penaliseOrthogonalSharedPathsAtConnEnds] = true;
    }
}

static void case_route_repeat(const Args &a, long idx, bool wantDesc, CaseResult &res) {
    Rng R(mix(mix(a.seed, 0xC20), (uint64_t)idx));
    Scene S; genScene(R, S, false); if (S.conns.empty()) { res.inconclusive = "no-connectors"; return; }
    Scene U; genScene(R, U, false);   // unrelated work between the runs
    res.digest = scene_digest(S); res.gen = std::string(S.orthogonal ? "orthogonal/" : "polyline/") + S.regime; if (wantDesc) res.desc = scene_json(S);
    Routes d1, r1, d2, r2; unsigned char p1 = (unsigned char)std::vector<int>{0x00, 0xFF, 0x5A, 0x7F, 0x80}[R.ri(0, 4)], p2 = (unsigned char)std::vector<int>{0xFF, 0x01, 0xA5, 0x3C, 0xC0}[R.ri(0, 4)];
    { churn(R, p1); Built B; buildX(S, B, D4[0], 0, 0); set_stage("processTransaction(run 1)"); B.router->processTransaction(); collect(B, d1, r1); }
    { Built B; if (!U.conns.empty()) { buildX(U, B, D4[0], 0, 0); set_stage("processTransaction(unrelated)"); B.router->processTransaction(); } }
    { churn(R, p2); Built B; buildX(S, B, D4[0], 0, 0); set_stage("processTransaction(run 2)"); B.router->processTransaction(); collect(B, d2, r2); }
    res.count("routes_compared", (long)d1.size()); bool bent = false; for (auto &r : d1) if (r.size() > 2) bent = true; res.nontrivial = bent;
    if (d1 != d2 || r1 != r2) res.violate(std::string(S.orthogonal ? "orthogonal" : "polyline") + ":second-run-gives-different-routes", JObj().raw("first", routesJson(d1)).raw("second", routesJson(d2)).i("fill_before_first", p1).i("fill_before_second", p2).raw("scene", scene_json(S)).done());
}

static double costOf(const std::vector<std::pair<double, double>> &r, bool orth, double pen) {
    Avoid::PolyLine pl((int)r.size()); for (size_t i = 0; i < r.size(); i++) pl.ps[i] = Avoid::Point(r[i].first, r[i].second);
    double L = 0; for (size_t i = 1; i < r.size(); i++) L += orth ? std::fabs(r[i].first - r[i - 1].first) + std::fabs(r[i].second - r[i - 1].second) : std::hypot(r[i].first - r[i - 1].first, r[i].second - r[i - 1].second);
    return L + pen * countBends(pl);
}
static void case_route_frame(const Args &a, long idx, bool wantDesc, CaseResult &res) {
    Rng R(mix(mix(a.seed, 0xF20), (uint64_t)idx));
    Scene S; genScene(R, S, true); if (S.conns.empty()) { res.inconclusive = "no-connectors"; return; }
    double pen = S.params[Avoid::segmentPenalty]; double ox = R.ri(-2000 * 1024, 2000 * 1024) / 1024.0, oy = R.ri(-2000 * 1024, 2000 * 1024) / 1024.0; int ti = (int)R.ri(1, 7);
    res.digest = scene_digest(S) ^ (uint64_t)ti; res.gen = std::string(S.orthogonal ? "orthogonal/" : "polyline/") + S.regime;
    if (wantDesc) res.desc = JObj().raw("scene", scene_json(S)).num("offset_x", ox).num("offset_y", oy).str("symmetry", D4[ti].name).done();
    Routes d0, r0, d1, r1, d2, r2;
    { Built B; buildX(S, B, D4[0], 0, 0); set_stage("processTransaction(base)"); B.router->processTransaction(); collect(B, d0, r0); }
    { Built B; buildX(S, B, D4[0], ox, oy); set_stage("processTransaction(translated)"); B.router->processTransaction(); collect(B, d1, r1); }
    { Built B; buildX(S, B, D4[ti], 0, 0); set_stage("processTransaction(symmetry)"); B.router->processTransaction(); collect(B, d2, r2); }
    bool bent = false; for (auto &r : d0) if (r.size() > 2) bent = true; res.nontrivial = bent;
    double tol = S.orthogonal ? 1e-7 : 0.0;
    for (size_t c = 0; c < d0.size(); c++) {
        res.count("routes_compared_under_translation");
        bool same = d0[c].size() == d1[c].size(); for (size_t i = 0; same && i < d0[c].size(); i++) if (std::fabs(d0[c][i].first + ox - d1[c][i].first) > tol || std::fabs(d0[c][i].second + oy - d1[c][i].second) > tol) same = false;
        if (!same) { res.violate(std::string(S.orthogonal ? "orthogonal" : "polyline") + ":route-does-not-translate-with-the-scene", JObj().i("connector", (long)c).raw("base", routesJson({d0[c]})).raw("translated", routesJson({d1[c]})).num("offset_x", ox).num("offset_y", oy).raw("scene", scene_json(S)).done()); return; }
        res.count("routes_compared_under_symmetry");
        const auto &b = S.orthogonal ? r0[c] : d0[c]; const auto &m = S.orthogonal ? r2[c] : d2[c]; double c0 = costOf(b, S.orthogonal, pen), c2 = costOf(m, S.orthogonal, pen);
        if (std::fabs(c0 - c2) > 1e-6 * (1 + c0)) { bool directional = S.conns[c].srcDirs != Avoid::ConnDirAll || S.conns[c].dstDirs != Avoid::ConnDirAll;
            res.violate(std::string(S.orthogonal ? "orthogonal" : "polyline") + ":route-cost-changes-under-symmetry" + (directional ? "[directional-endpoint]" : ""), JObj().i("connector", (long)c).str("symmetry", D4[ti].name).num("cost", c0).num("cost_in_mapped_scene", c2).raw("route", routesJson({b})).raw("route_in_mapped_scene", routesJson({m})).raw("scene", scene_json(S)).done()); return; }
    }
}

// ---------------------------------------------------------------- VPSC
struct VP { int n; std::vector<double> des, w; std::vector<std::array<double, 4>> cons; };   // l, r, gap, eq
static void genVP(Rng &R, VP &P) {
    P.n = (int)R.ri(2, 30); bool ints = R.coin(0.5);
    for (int i = 0; i < P.n; i++) { P.des.push_back(ints ? (double)R.ri(0, 100) : R.rd(0, 100)); P.w.push_back(R.coin(0.3) ? (double)R.ri(1, 4) : 1.0); }
    // a witness placement keeps the set satisfiable (equalities included): every gap is at most the witness separation, equalities equal it
    std::vector<double> wit(P.n); { std::vector<int> order(P.n); for (int i = 0; i < P.n; i++) order[i] = i; R.shuffle(order); double x = 0; for (int k = 0; k < P.n; k++) { x += ints ? (double)R.ri(0, 12) : R.rd(0, 12); wit[order[k]] = x; } }
    int m = (int)R.ri(1, 3 * P.n);
    for (int k = 0; k < m; k++) { int l = (int)R.ri(0, P.n - 1), r = (int)R.ri(0, P.n - 1); if (l == r) continue; if (wit[l] > wit[r] || (wit[l] == wit[r] && l > r)) std::swap(l, r); double sep = wit[r] - wit[l]; bool eq = R.coin(0.08);
        double gap = eq ? sep : (ints ? (double)R.ri(0, (long)sep) : R.rd(0, sep)); P.cons.push_back({(double)l, (double)r, gap, eq ? 1.0 : 0.0}); }
}
static std::vector<double> solveVP(const VP &P, bool inc, double off, const std::vector<int> *varOrder, const std::vector<int> *conOrder) {
    int n = P.n; std::vector<int> vo(n), pos(n); for (int i = 0; i < n; i++) vo[i] = varOrder ? (*varOrder)[i] : i; for (int i = 0; i < n; i++) pos[vo[i]] = i;   // position i holds original variable vo[i]
    std::vector<vpsc::Variable *> vs; for (int i = 0; i < n; i++) vs.push_back(new vpsc::Variable(i, P.des[vo[i]] + off, P.w[vo[i]]));
    std::vector<vpsc::Constraint *> cs; for (size_t k = 0; k < P.cons.size(); k++) { const auto &c = P.cons[conOrder ? (*conOrder)[k] : k]; cs.push_back(new vpsc::Constraint(vs[pos[(int)c[0]]], vs[pos[(int)c[1]]], c[2], c[3] != 0)); }
    bool threw = false;
    try { if (inc) { vpsc::IncSolver s(vs, cs); s.solve(); } else { vpsc::Solver s(vs, cs); s.solve(); } } catch (vpsc::UnsatisfiedConstraint &) { threw = true; }
    if (threw) { for (auto c : cs) delete c; for (auto v : vs) delete v; throw std::runtime_error("vpsc::UnsatisfiedConstraint on a satisfiable constraint set"); }
    std::vector<double> out(n); for (int i = 0; i < n; i++) out[vo[i]] = vs[i]->finalPosition;
    for (auto c : cs) delete c; for (auto v : vs) delete v; return out;
}
static std::string vpJson(const VP &P) { JArr c; for (auto &k : P.cons) c.raw(JArr().i((long)k[0]).i((long)k[1]).num(k[2]).i((long)k[3]).done()); return JObj().raw("desired", jnums(P.des)).raw("weights", jnums(P.w)).raw("constraints_l_r_gap_eq", c.done()).done(); }
static void case_vpsc(const Args &a, long idx, bool wantDesc, CaseResult &res) {
    Rng R(mix(mix(a.seed, 0x5C20), (uint64_t)idx)); VP P; genVP(R, P); bool inc = R.coin(0.6);
    if (!inc) for (auto &c : P.cons) c[3] = 0;   // the static solver is specified for inequality DAGs; equalities go to IncSolver only
    Digest D; D.s(vpJson(P)); D.i(inc); res.digest = D.h; res.gen = inc ? "IncSolver" : "Solver"; if (wantDesc) res.desc = vpJson(P);
    set_stage("solve(base)"); churn(R, 0xFF); std::vector<double> x0 = solveVP(P, inc, 0, nullptr, nullptr);
    bool moved = false; for (int i = 0; i < P.n; i++) if (std::fabs(x0[i] - P.des[i]) > 1e-9) moved = true; res.nontrivial = moved;
    set_stage("solve(repeat)"); churn(R, 0x33); std::vector<double> x1 = solveVP(P, inc, 0, nullptr, nullptr); res.count("solves_compared");
    if (x0 != x1) { res.violate(std::string(res.gen) + ":second-run-gives-different-positions", JObj().raw("first", jnums(x0)).raw("second", jnums(x1)).raw("problem", vpJson(P)).done()); return; }
    double off = R.ri(-3000 * 1024, 3000 * 1024) / 1024.0; set_stage("solve(translated)"); std::vector<double> x2 = solveVP(P, inc, off, nullptr, nullptr);
    // the solvers stop within their own tolerance (Lagrange multipliers down to -1e-4 are accepted), so positions are compared to 2e-3 on data of scale 100
    auto cost = [&](const std::vector<double> &x, double o) { double c = 0; for (int i = 0; i < P.n; i++) c += P.w[i] * (x[i] - o - P.des[i]) * (x[i] - o - P.des[i]); return c; };
    const double PT = 2e-3;
    for (int i = 0; i < P.n; i++) if (std::fabs(x2[i] - off - x0[i]) > PT) { res.violate(std::string(res.gen) + (std::fabs(cost(x2, off) - cost(x0, 0)) > 1e-10 * (1 + cost(x0, 0)) ? ":solution-depends-on-frame(different-cost)" : ":solution-depends-on-frame(same-cost)"), JObj().i("variable", i).num("offset", off).raw("base", jnums(x0)).raw("translated", jnums(x2)).num("cost_base", cost(x0, 0)).num("cost_translated", cost(x2, off)).raw("problem", vpJson(P)).done()); return; }
    std::vector<int> vo(P.n), co(P.cons.size()); for (int i = 0; i < P.n; i++) vo[i] = i; for (size_t i = 0; i < co.size(); i++) co[i] = (int)i; R.shuffle(vo); R.shuffle(co);
    set_stage("solve(permuted)"); std::vector<double> x3 = solveVP(P, inc, 0, &vo, &co);
    // the optimum is unique (strictly convex objective): the cost must agree, and so must the positions
    for (int i = 0; i < P.n; i++) if (std::fabs(x3[i] - x0[i]) > PT) { res.violate(std::string(res.gen) + (std::fabs(cost(x3, 0) - cost(x0, 0)) > 1e-10 * (1 + cost(x0, 0)) ? ":solution-depends-on-order(different-cost)" : ":solution-depends-on-order(same-cost)"), JObj().i("variable", i).raw("base", jnums(x0)).raw("permuted", jnums(x3)).num("cost_base", cost(x0, 0)).num("cost_permuted", cost(x3, 0)).raw("problem", vpJson(P)).done()); return; }
}

// ---------------------------------------------------------------- layouts
static void case_layout(const Args &a, long idx, bool wantDesc, CaseResult &res) {
    Rng R(mix(mix(a.seed, 0x1C20), (uint64_t)idx));
    int kind = (int)R.ri(0, 9);   // 0-3 FD layout, 4-5 majorization, 6-8 removeoverlaps, 9 HOLA
    int n = kind == 9 ? (int)R.ri(2, 14) : (int)R.ri(2, 40);
    std::vector<std::array<double, 4>> rects; bool ints = R.coin(0.4);
    for (int i = 0; i < n; i++) { double w = ints ? (double)R.ri(4, 30) : R.rd(4, 30), h = ints ? (double)R.ri(4, 30) : R.rd(4, 30), x = ints ? (double)R.ri(0, 120) : R.rd(0, 120), y = ints ? (double)R.ri(0, 120) : R.rd(0, 120); if (i > 0 && R.coin(0.15)) { x = rects[R.ri(0, i - 1)][0]; y = rects[R.ri(0, i - 1)][1]; } rects.push_back({x, y, w, h}); }
    std::vector<cola::Edge> es; for (int i = 1; i < n; i++) es.push_back(cola::Edge((unsigned)R.ri(0, i - 1), (unsigned)i)); int extra = (int)R.ri(0, n / 2); for (int e = 0; e < extra; e++) { unsigned u = (unsigned)R.ri(0, n - 1), v = (unsigned)R.ri(0, n - 1); if (u != v) es.push_back(cola::Edge(u, v)); }
    bool overlaps = R.coin(0.5); double ideal = R.rd(30, 80);
    static const char *kn[] = {"fd", "fd", "fd", "fd", "majorization", "majorization", "removeoverlaps", "removeoverlaps", "removeoverlaps", "hola"};
    JArr rj; for (auto &r : rects) rj.raw(JArr().num(r[0]).num(r[1]).num(r[2]).num(r[3]).done()); JArr ej; for (auto &e : es) ej.raw(JArr().i(e.first).i(e.second).done());
    std::string desc = JObj().str("kind", kn[kind]).raw("rects_x_y_w_h", rj.done()).raw("edges", ej.done()).b("avoid_overlaps", overlaps).num("ideal_length", ideal).done();
    Digest D; D.s(desc); res.digest = D.h; res.gen = kn[kind]; if (wantDesc) res.desc = desc; res.nontrivial = true;
    int efd = dup(2); int nul = open("/dev/null", O_WRONLY); dup2(nul, 2); close(nul); struct EG { int fd; ~EG() { dup2(fd, 2); close(fd); } } eg{efd};
    auto run = [&](bool reversedAllocation, unsigned char pattern) {
        churn(R, pattern); std::vector<double> out;   // (process-wide state such as Rectangle::xBorder/yBorder is deliberately NOT reset here)
        if (kind == 9) {
            dialect::Graph G; std::vector<dialect::Node_SP> ns; for (int i = 0; i < n; i++) { dialect::Node_SP u = dialect::Node::allocate(); u->setDims(rects[i][2], rects[i][3]); u->setCentre(rects[i][0], rects[i][1]); G.addNode(u); ns.push_back(u); }
            std::set<std::pair<unsigned, unsigned>> seen; for (auto &e : es) { auto k = std::make_pair(std::min(e.first, e.second), std::max(e.first, e.second)); if (seen.insert(k).second) G.addEdge(ns[e.first], ns[e.second]); }
            dialect::HolaOpts opts; set_stage("doHOLA"); dialect::doHOLA(G, opts);
            for (auto &u : ns) { auto c = u->getCentre(); out.push_back(c.x); out.push_back(c.y); }
            return out;
        }
        // rectangles are allocated in one block of pointers so that the second run can hand them out in the opposite address order
        std::vector<vpsc::Rectangle *> pool; for (int i = 0; i < n; i++) pool.push_back(new vpsc::Rectangle(0, 1, 0, 1)); std::sort(pool.begin(), pool.end()); if (reversedAllocation) std::reverse(pool.begin(), pool.end());
        vpsc::Rectangles rs; for (int i = 0; i < n; i++) { *pool[i] = vpsc::Rectangle(rects[i][0], rects[i][0] + rects[i][2], rects[i][1], rects[i][1] + rects[i][3]); rs.push_back(pool[i]); }
        if (kind <= 3) { cola::ConstrainedFDLayout alg(rs, es, ideal); if (overlaps) alg.setAvoidNodeOverlaps(true); set_stage("ConstrainedFDLayout::run"); if (overlaps && R.coin(0)) alg.makeFeasible(); alg.run(); }
        else if (kind <= 5) { cola::ConstrainedMajorizationLayout alg(rs, es, nullptr, ideal); if (overlaps) alg.setAvoidOverlaps(true); set_stage("ConstrainedMajorizationLayout::run"); alg.run(); }
        else { set_stage("removeoverlaps"); vpsc::removeoverlaps(rs); }
        for (auto r : rs) { out.push_back(r->getCentreX()); out.push_back(r->getCentreY()); }
        for (auto r : rs) delete r; return out;
    };
    std::vector<double> p1, p2;
    bool rev = a.pl("reverse_allocation", 1) != 0;
    // unrelated work between the two runs: another layout that goes through makeFeasible() (which uses non-zero rectangle borders internally)
    auto unrelated = [&]() {
        int m = (int)R.ri(3, 10); vpsc::Rectangles rs; std::vector<cola::Edge> ee;
        for (int i = 0; i < m; i++) { double x = R.rd(0, 60), y = R.rd(0, 60); rs.push_back(new vpsc::Rectangle(x, x + R.rd(5, 20), y, y + R.rd(5, 20))); if (i) ee.push_back(cola::Edge((unsigned)R.ri(0, i - 1), (unsigned)i)); }
        { cola::ConstrainedFDLayout alg(rs, ee, 40); alg.setAvoidNodeOverlaps(true); set_stage("unrelated:makeFeasible+run"); alg.makeFeasible(); alg.run(); }
        for (auto r : rs) delete r;
    };
    try { p1 = run(false, 0xFF); unrelated(); p2 = run(rev, 0x11); } catch (std::runtime_error &e) { if (kind == 9) { res.inconclusive = std::string("doHOLA-runtime_error:") + short_what(e.what()); res.nontrivial = false; return; } throw; }
    res.count("layouts_compared"); double worst = 0; for (size_t i = 0; i < p1.size(); i++) worst = std::max(worst, std::fabs(p1[i] - p2[i])); res.maxi("largest_position_difference", worst);
    if (worst > 1e-9) res.violate(std::string(kn[kind]) + ":second-run-gives-different-positions", JObj().num("largest_difference", worst).raw("first", jnums(p1)).raw("second", jnums(p2)).raw("case", desc).done());
}

int main(int argc, char **argv) {
    return harness_main(argc, argv, "c20_repeat", [](const Args &a, long idx, bool wantDesc, CaseResult &res) {
        if (a.mode == "route-repeat") case_route_repeat(a, idx, wantDesc, res);
        else if (a.mode == "route-frame") case_route_frame(a, idx, wantDesc, res);
        else if (a.mode == "vpsc") case_vpsc(a, idx, wantDesc, res);
        else if (a.mode == "layout") case_layout(a, idx, wantDesc, res);
        else res.inconclusive = "unknown-mode";
    });
}
