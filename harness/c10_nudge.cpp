// C10: orthogonal nudging separates shared paths without moving endpoints.
// Scenes are built to force sharing (rows/columns of rectangles with corridors of chosen width, many connectors between few shapes).
// Oracle: own comparison of route() (raw) and displayRoute() (nudged).
#include "avoid_scene.h"

using namespace av;

struct Seg { double x0, y0, x1, y1; bool horiz; size_t conn, idx, nsegs; };

static std::vector<Seg> segsOf(const Avoid::PolyLine &r, size_t conn) {
    std::vector<Seg> out;
    std::vector<DP> p; for (size_t i = 0; i < r.size(); i++) { DP q{r.ps[i].x, r.ps[i].y}; if (p.empty() || p.back().x != q.x || p.back().y != q.y) p.push_back(q); }
    for (size_t i = 1; i < p.size(); i++) { Seg s{p[i - 1].x, p[i - 1].y, p[i].x, p[i].y, p[i - 1].y == p[i].y, conn, i - 1, p.size() - 1}; out.push_back(s); }
    return out;
}
// collinear overlap length of two axis-parallel segments (0 if not collinear within tol)
static double overlapLen(const Seg &a, const Seg &b, double tol, double *lo = nullptr, double *hi = nullptr) {
    if (a.horiz != b.horiz) return 0;
    if (a.horiz) { if (std::fabs(a.y0 - b.y0) > tol) return 0; double l = std::max(std::min(a.x0, a.x1), std::min(b.x0, b.x1)), h = std::min(std::max(a.x0, a.x1), std::max(b.x0, b.x1)); if (lo) *lo = l; if (hi) *hi = h; return h - l; }
    if (std::fabs(a.x0 - b.x0) > tol) return 0; double l = std::max(std::min(a.y0, a.y1), std::min(b.y0, b.y1)), h = std::min(std::max(a.y0, a.y1), std::max(b.y0, b.y1)); if (lo) *lo = l; if (hi) *hi = h; return h - l;
}

static void case_nudge(const Args &a, long idx, bool wantDesc, CaseResult &res) {
    Rng R(mix(mix(a.seed, 0xC10), (uint64_t)idx));
    Scene S; S.orthogonal = true; S.regime = "corridors";
    // grid of rectangles with corridors
    int cols = (int)R.ri(2, 4), rows = (int)R.ri(1, 3);
    ll corridor = std::vector<ll>{6, 12, 30, 60}[R.ri(0, 3)];
    std::vector<ll> xs{30}, ys{30};
    for (int i = 0; i < cols; i++) { ll w = R.ri(20, 70); xs.push_back(xs.back() + w); xs.push_back(xs.back() + (R.coin(0.3) ? R.ri(6, 60) : corridor)); }
    for (int j = 0; j < rows; j++) { ll h = R.ri(20, 70); ys.push_back(ys.back() + h); ys.push_back(ys.back() + (R.coin(0.3) ? R.ri(6, 60) : corridor)); }
    for (int i = 0; i < cols; i++) for (int j = 0; j < rows; j++) { if (R.coin(0.1) && S.shapes.size() >= 2) continue; ShapeSpec sp; sp.isRect = true; sp.poly = rectPoly(xs[2 * i], ys[2 * j], xs[2 * i + 1], ys[2 * j + 1]); S.shapes.push_back(sp); }
    if (S.shapes.size() < 2) { res.inconclusive = "too-few-shapes"; return; }
    double nd = std::vector<double>{1, 4, 10, 25}[R.ri(0, 3)];
    double pen = std::vector<double>{10, 50, 200}[R.ri(0, 2)];
    S.params[Avoid::segmentPenalty] = pen; S.params[Avoid::idealNudgingDistance] = nd;
    // half of the cases keep the library's default nudging options (unify on, common-end nudging on, end segments fixed);
    // the other half draws all 2^4 combinations
    bool dflt = R.coin(0.5);
    bool optConnected = dflt ? false : R.coin(0.35), optTouching = R.coin(0.5), optUnify = dflt ? true : R.coin(0.5), optCommonEnd = dflt ? true : R.coin(0.5);
    std::string cfg = std::string("[conn=") + (optConnected ? "1" : "0") + ",unify=" + (optUnify ? "1" : "0") + ",common=" + (optCommonEnd ? "1" : "0") + "]";
    S.options[Avoid::nudgeOrthogonalSegmentsConnectedToShapes] = optConnected;
    S.options[Avoid::nudgeOrthogonalTouchingColinearSegments] = optTouching;
    S.options[Avoid::performUnifyingNudgingPreprocessingStep] = optUnify;
    S.options[Avoid::nudgeSharedPathsWithCommonEndPoint] = optCommonEnd;
    if (R.coin(0.2)) S.options[Avoid::penaliseOrthogonalSharedPathsAtConnEnds] = true;
    // connectors: between centre pins (kind 0) or free points in corridors (kind 1)
    struct End { int shape; IP p; };
    int nc = (int)R.ri(2, 10);
    bool sceneHasCheckpoints = R.coin(0.3);   // segments through checkpoints are pinned, which confounds the separation clauses: those are judged in checkpoint-free scenes
    std::vector<std::pair<End, End>> ends; std::vector<std::vector<IP>> checkpoints;
    ll maxx = xs.back() + 30, maxy = ys.back() + 30;
    for (int c = 0; c < nc; c++) {
        End e[2];
        for (int k = 0; k < 2; k++) { if (R.coin(0.75)) { e[k].shape = (int)R.ri(0, (long)S.shapes.size() - 1); e[k].p = IP{0, 0}; } else { e[k].shape = -1; int t = 0; bool aligned = R.coin(0.45);
                do { e[k].p = IP{R.ri(5, maxx), R.ri(5, maxy)};
                     // often put a free end on the line of some shape side: its (immovable) end segment is then collinear with routes that hug that side
                     if (aligned) { const ShapeSpec &sp = S.shapes[R.ri(0, (long)S.shapes.size() - 1)]; ll x0, y0, x1, y1; bbox(sp.poly, x0, y0, x1, y1); int w = (int)R.ri(0, 3); if (w == 0) e[k].p.x = x0; else if (w == 1) e[k].p.x = x1; else if (w == 2) e[k].p.y = y0; else e[k].p.y = y1; }
                } while (!pointFree(S, e[k].p, 2) && ++t < 200); if (t >= 200) e[k].shape = 0; } }
        if (e[0].shape >= 0 && e[0].shape == e[1].shape) { c--; if (R.coin(0.1)) c++; continue; }
        if (e[0].shape < 0 && e[1].shape < 0 && e[0].p == e[1].p) continue;
        ends.push_back({e[0], e[1]});
        std::vector<IP> cps; if (sceneHasCheckpoints && R.coin(0.4)) { int k = (int)R.ri(1, 2); for (int q = 0; q < k; q++) { IP p; int t = 0; do { p = IP{R.ri(5, maxx), R.ri(5, maxy)}; } while (!pointFree(S, p, 3) && ++t < 200); if (t < 200) cps.push_back(p); } }
        // a checkpoint straight out from one end, beyond the half-way line of a z-bend: the route's first (or last) leg carries it and the free middle segment,
        // which nudging would like to centre, has to stop short of it
        if (sceneHasCheckpoints && R.coin(0.3)) {
            auto at = [&](const End &q) { if (q.shape < 0) return q.p; ll x0, y0, x1, y1; bbox(S.shapes[q.shape].poly, x0, y0, x1, y1); return IP{(x0 + x1) / 2, (y0 + y1) / 2}; };
            IP a0 = at(e[0]), a1 = at(e[1]); if (R.coin()) std::swap(a0, a1); ll dx = a1.x - a0.x, dy = a1.y - a0.y;
            if (std::llabs(dx) >= 20 && std::llabs(dy) >= 20) { IP p = R.coin() ? IP{a0.x, a0.y + dy * R.ri(55, 95) / 100} : IP{a0.x + dx * R.ri(55, 95) / 100, a0.y}; if (pointFree(S, p, 3)) { if (R.coin(0.7)) cps.clear(); cps.push_back(p); res.count("checkpoints_placed_straight_out_from_an_end"); } }
        }
        checkpoints.push_back(cps);
    }
    if (ends.size() < 2) { res.inconclusive = "too-few-connectors"; return; }
    JArr ej; Digest D; D.i(scene_digest(S));
    for (size_t c = 0; c < ends.size(); c++) { JObj o; for (int k = 0; k < 2; k++) { const End &e = k ? ends[c].second : ends[c].first; o.raw(k ? "dst" : "src", e.shape >= 0 ? JObj().i("centre_pin_of_shape", e.shape).done() : ipj(e.p)); D.i(e.shape); D.i(e.p.x); D.i(e.p.y); } JArr cj; for (auto &p : checkpoints[c]) { cj.raw(ipj(p)); D.i(p.x); D.i(p.y); } o.raw("checkpoints", cj.done()); ej.raw(o.done()); }
    res.digest = D.h; res.gen = std::string("nd") + std::to_string((int)nd) + (optConnected ? "/endnudge" : "") + (optUnify ? "/unify" : "");
    std::string desc = JObj().raw("scene", scene_json(S)).raw("connectors", ej.done()).done();
    if (wantDesc) res.desc = desc;

    Built B; build(S, B);
    for (auto s : B.shapes) new Avoid::ShapeConnectionPin(s, 1, Avoid::ATTACH_POS_CENTRE, Avoid::ATTACH_POS_CENTRE, true, 0.0, Avoid::ConnDirNone);
    std::vector<Avoid::ConnRef *> conns;
    for (size_t c = 0; c < ends.size(); c++) {
        Avoid::ConnEnd ce[2];
        for (int k = 0; k < 2; k++) { const End &e = k ? ends[c].second : ends[c].first; ce[k] = e.shape >= 0 ? Avoid::ConnEnd(B.shapes[e.shape], 1) : Avoid::ConnEnd(Avoid::Point((double)e.p.x, (double)e.p.y)); }
        Avoid::ConnRef *cr = new Avoid::ConnRef(B.router, ce[0], ce[1]); cr->setRoutingType(Avoid::ConnType_Orthogonal);
        if (!checkpoints[c].empty()) { std::vector<Avoid::Checkpoint> cps; for (auto &p : checkpoints[c]) cps.push_back(Avoid::Checkpoint(Avoid::Point((double)p.x, (double)p.y))); cr->setRoutingCheckpoints(cps); }
        conns.push_back(cr);
    }
    set_stage("processTransaction"); B.router->processTransaction(); set_stage("oracle");

    size_t n = conns.size();
    std::vector<std::vector<Seg>> raw(n), disp(n);
    bool anyShared = false;
    for (size_t c = 0; c < n; c++) { raw[c] = segsOf(conns[c]->route(), c); disp[c] = segsOf(conns[c]->displayRoute(), c); }
    auto sharesEnd = [&](size_t x, size_t y) {
        for (int i = 0; i < 2; i++) for (int j = 0; j < 2; j++) { const End &e = i ? ends[x].second : ends[x].first, &f = j ? ends[y].second : ends[y].first; if (e.shape >= 0 && e.shape == f.shape) return true; if (e.shape < 0 && f.shape < 0 && e.p == f.p) return true; }
        return false;
    };
    auto wit = [&](const char *what, size_t c1, size_t c2) { return JObj().str("what", what).i("connector_a", (long)c1).i("connector_b", (long)c2).raw("raw_a", routej(conns[c1]->route())).raw("display_a", routej(conns[c1]->displayRoute())).raw("raw_b", routej(conns[c2]->route())).raw("display_b", routej(conns[c2]->displayRoute())).raw("case", desc).done(); };
    std::vector<IRect> rs; for (auto &s : S.shapes) { IRect r; bbox(s.poly, r.x0, r.y0, r.x1, r.y1); rs.push_back(r); }
    // free channel around a stretch [lo,hi] at coordinate pos: distance to the nearest shapes on both sides
    auto channel = [&](bool horiz, double pos, double lo, double hi, double &below, double &above) {
        below = -1e9; above = 1e9;
        for (auto &r : rs) {
            double a0 = horiz ? r.x0 : r.y0, a1 = horiz ? r.x1 : r.y1, b0 = horiz ? r.y0 : r.x0, b1 = horiz ? r.y1 : r.x1;
            if (a1 <= lo + 1e-9 || a0 >= hi - 1e-9) continue;       // not alongside the stretch
            if (b1 <= pos + 1e-9) below = std::max(below, b1); else if (b0 >= pos - 1e-9) above = std::min(above, b0); else { below = pos; above = pos; }   // stretch inside a shape
        }
    };
    for (size_t c = 0; c < n; c++) {
        const Avoid::PolyLine &rr = conns[c]->route(), &dd = conns[c]->displayRoute();
        res.count("routes");
        if (rr.size() < 2 || dd.size() < 2) { res.violate("route-too-short", wit("route with fewer than 2 points", c, c)); continue; }
        // (c) endpoints
        bool movedS = dd.ps[0].x != rr.ps[0].x || dd.ps[0].y != rr.ps[0].y, movedD = dd.ps[dd.size() - 1].x != rr.ps[rr.size() - 1].x || dd.ps[dd.size() - 1].y != rr.ps[rr.size() - 1].y;
        if (movedS || movedD) {
            if (!optConnected) res.violate("endpoint-moved-by-nudging", wit("first/last point differs between route() and displayRoute()", c, c));
            else {
                // option nudgeOrthogonalSegmentsConnectedToShapes: the end may slide, but only perpendicular to its end segment and it must stay on/inside its shape
                bool ok = true;
                for (int k = 0; k < 2 && ok; k++) {
                    const End &e = k ? ends[c].second : ends[c].first; if (!(k ? movedD : movedS)) continue;
                    Avoid::Point pr = k ? rr.ps[rr.size() - 1] : rr.ps[0], pd = k ? dd.ps[dd.size() - 1] : dd.ps[0];
                    if (e.shape >= 0 && !ptInClosedD(DP{pd.x, pd.y}, S.shapes[e.shape].poly, 1e-7)) ok = false;
                    if (pr.x != pd.x && pr.y != pd.y) ok = false;
                }
                if (!ok) res.violate("endpoint-left-its-shape-or-moved-diagonally", wit("with nudgeOrthogonalSegmentsConnectedToShapes the end may slide along its shape only", c, c));
                else res.violate("endpoint-slid[conn=1]", wit("literal clause: nudging never moves first/last point", c, c));
            }
        }
        // (d) never more segments than the simplified raw route
        if (disp[c].size() > raw[c].size()) {
            int rb = countBends(rr, 1), db = countBends(dd, 1);
            if (db > rb) res.violate("nudging-added-segments", wit("displayRoute has more bends than route()", c, c));
        }
        // axis-parallel
        for (auto &s : disp[c]) if (s.x0 != s.x1 && s.y0 != s.y1) { res.count("diagonal_display_segment(C05 business)"); break; }
        // (e) checkpoints on the displayed route
        for (auto &p : checkpoints[c]) {
            double best = 1e300; for (auto &s : disp[c]) { double px = std::min(std::max((double)p.x, std::min(s.x0, s.x1)), std::max(s.x0, s.x1)), py = std::min(std::max((double)p.y, std::min(s.y0, s.y1)), std::max(s.y0, s.y1)); best = std::min(best, std::hypot(px - p.x, py - p.y)); }
            res.count("checkpoints_checked");
            // signature of F31: the raw route reaches the checkpoint by a hairpin excursion (out and straight back), which nudging collapses
            bool hairpin = false;
            {
                std::vector<DP> q0, q; for (size_t i = 0; i < rr.size(); i++) { DP t{rr.ps[i].x, rr.ps[i].y}; if (q0.empty() || q0.back().x != t.x || q0.back().y != t.y) q0.push_back(t); }
                // keep corners and the checkpoint itself, drop collinear pass-through points
                for (size_t i = 0; i < q0.size(); i++) { bool isCp = q0[i].x == (double)p.x && q0[i].y == (double)p.y; bool corner = i == 0 || i + 1 == q0.size() || !((q0[i - 1].x == q0[i].x && q0[i].x == q0[i + 1].x) || (q0[i - 1].y == q0[i].y && q0[i].y == q0[i + 1].y)); if (isCp || corner) q.push_back(q0[i]); }
                auto dir = [&](size_t i) { return (int)((q[i + 1].x > q[i].x) - (q[i + 1].x < q[i].x)) * 2 + (int)((q[i + 1].y > q[i].y) - (q[i + 1].y < q[i].y)); };
                for (size_t i = 1; i + 1 < q.size(); i++) if (q[i].x == (double)p.x && q[i].y == (double)p.y) {
                    // look at up to three segments on either side for a reversal of direction
                    for (size_t u = (i >= 3 ? i - 3 : 0); u < i; u++) for (size_t v = i; v + 1 < q.size() && v < i + 3; v++) if (dir(u) == -dir(v)) hairpin = true;
                }
            }
            // signature of F32: the checkpoint still lies on the LINE of a displayed segment but beyond its end -- the neighbouring
            // segment was nudged and shortened the one that carried the checkpoint
            bool beyondEnd = false;
            for (auto &sg : disp[c]) { if (sg.horiz ? std::fabs(sg.y0 - p.y) < 1e-6 : std::fabs(sg.x0 - p.x) < 1e-6) beyondEnd = true; }
            if (best > 1e-6) res.violate(optConnected ? "checkpoint-off-route[conn=1]" : hairpin ? "checkpoint-off-route[hairpin-excursion]" : beyondEnd ? "checkpoint-off-route[segment-shortened-by-neighbour-nudge]" : "checkpoint-off-route", JObj().i("connector", (long)c).raw("checkpoint", ipj(p)).num("distance", best).raw("display", routej(dd)).raw("raw", routej(rr)).raw("case", desc).done());
        }
    }
    // (a),(b) pairs of connectors without a common end
    for (size_t x = 0; x < n; x++) for (size_t y = x + 1; y < n; y++) {
        if (sharesEnd(x, y)) continue;
        // were they collinear in the raw routes?
        bool rawShared = false; for (auto &s : raw[x]) for (auto &t : raw[y]) if (overlapLen(s, t, 1e-9) > 1e-6) rawShared = true;
        if (rawShared) { anyShared = true; res.count("pairs_sharing_a_raw_stretch"); }
        for (auto &s : disp[x]) for (auto &t : disp[y]) {
            double lo, hi; double ol = overlapLen(s, t, 1e-9, &lo, &hi);
            if (ol <= 1e-6) continue;
            // overlapping stretch: excused if one of the segments cannot move (first/last segment of its route, or holds a checkpoint),
            // or if the channel is too narrow for the requested distance
            bool fixedS = s.idx == 0 || s.idx + 1 == s.nsegs, fixedT = t.idx == 0 || t.idx + 1 == t.nsegs;
            for (int w = 0; w < 2; w++) { const Seg &g = w ? t : s; for (auto &p : checkpoints[g.conn]) if (g.horiz ? (std::fabs(p.y - g.y0) < 1e-9 && p.x >= std::min(g.x0, g.x1) - 1e-9 && p.x <= std::max(g.x0, g.x1) + 1e-9) : (std::fabs(p.x - g.x0) < 1e-9 && p.y >= std::min(g.y0, g.y1) - 1e-9 && p.y <= std::max(g.y0, g.y1) + 1e-9)) (w ? fixedT : fixedS) = true; }
            double pos = s.horiz ? s.y0 : s.x0, below, above;
            {   // nudging shifts whole segments: the channel is what is free alongside BOTH full segments
                double l1 = s.horiz ? std::min(s.x0, s.x1) : std::min(s.y0, s.y1), h1 = s.horiz ? std::max(s.x0, s.x1) : std::max(s.y0, s.y1);
                double l2 = t.horiz ? std::min(t.x0, t.x1) : std::min(t.y0, t.y1), h2 = t.horiz ? std::max(t.x0, t.x1) : std::max(t.y0, t.y1);
                double b1, a1, b2, a2; channel(s.horiz, pos, l1, h1, b1, a1); channel(s.horiz, pos, l2, h2, b2, a2); below = std::max(b1, b2); above = std::min(a1, a2);
            }
            // how many connectors run on this very stretch?
            size_t k = 0; for (size_t z = 0; z < n; z++) { bool on = false; for (auto &u : disp[z]) if (u.horiz == s.horiz && std::fabs((u.horiz ? u.y0 : u.x0) - pos) < 1e-9) { double l2 = std::max(lo, u.horiz ? std::min(u.x0, u.x1) : std::min(u.y0, u.y1)), h2 = std::min(hi, u.horiz ? std::max(u.x0, u.x1) : std::max(u.y0, u.y1)); if (h2 - l2 > 1e-6) on = true; } if (on) k++; }
            double width = above - below;
            res.count("overlapping_display_stretches");
            if (fixedS && fixedT) { res.count("overlap_excused.both_segments_fixed_at_ends_or_checkpoints"); continue; }
            bool anyCp = false; for (auto &cp : checkpoints) if (!cp.empty()) anyCp = true;
            if (anyCp) { res.count("overlap_not_judged.scene_has_checkpoints"); continue; }
            if (width < (double)(k - 1) * nd + 1e-6) { res.count("overlap_excused.channel_too_narrow"); continue; }
            std::string key = std::string(fixedS || fixedT ? "collinear-overlap-with-a-fixed-end-segment-in-wide-channel" : "collinear-overlap-in-wide-channel") + cfg;
            res.violate(key, JObj().i("connector_a", (long)x).i("connector_b", (long)y).num("line", pos).b("horizontal", s.horiz).num("from", lo).num("to", hi).num("channel_width", width).i("sharers", (long)k).num("nudging_distance", nd)
                .raw("display_a", routej(conns[x]->displayRoute())).raw("display_b", routej(conns[y]->displayRoute())).raw("raw_a", routej(conns[x]->route())).raw("raw_b", routej(conns[y]->route())).raw("case", desc).done());
        }
    }
    // (b) segments that shared a raw line and were separated are at least the reduced (but positive) nudging distance apart: the
    // library reduces the distance in ten equal steps, so anything separated is at least nd/10 apart
    { bool anyCp = false; for (auto &cp : checkpoints) if (!cp.empty()) anyCp = true;
      if (!anyCp && !optConnected) for (size_t x = 0; x < n; x++) for (size_t y = x + 1; y < n; y++) {
        if (sharesEnd(x, y)) continue;
        bool rawShared = false; for (auto &s : raw[x]) for (auto &t : raw[y]) if (overlapLen(s, t, 1e-9) > 1e-6) rawShared = true;
        if (!rawShared) continue;
        for (auto &s : disp[x]) for (auto &t : disp[y]) {
            if (s.horiz != t.horiz) continue;
            double ps = s.horiz ? s.y0 : s.x0, pt = t.horiz ? t.y0 : t.x0, dist = std::fabs(ps - pt);
            if (dist < 1e-9 || dist >= nd) continue;
            Seg t2 = t; if (t.horiz) { t2.y0 = t2.y1 = s.y0; } else { t2.x0 = t2.x1 = s.x0; }
            if (overlapLen(s, t2, 1e-9) <= 1e-6) continue;
            // both must be movable middle segments that came from one raw line
            bool fixedS = s.idx == 0 || s.idx + 1 == s.nsegs, fixedT = t.idx == 0 || t.idx + 1 == t.nsegs; if (fixedS || fixedT) continue;
            bool fromOneLine = false; for (auto &u : raw[x]) for (auto &v : raw[y]) if (u.horiz == s.horiz && overlapLen(u, v, 1e-9) > 1e-6) { double pu = u.horiz ? u.y0 : u.x0; if (std::fabs(pu - ps) <= nd * (double)n + 1e-6 && std::fabs(pu - pt) <= nd * (double)n + 1e-6) fromOneLine = true; }
            if (!fromOneLine) continue;
            res.count("separated_pairs_checked"); res.maxi("min_separation_over_nudging_distance(neg)", -dist / nd);
            {   // stronger form, judged only when exactly these two connectors use the corridor: the distance is reduced in steps of nd/10
                // only as far as the corridor requires, so dist >= min(nd, corridor width) - nd/10
                double l1 = s.horiz ? std::min(s.x0, s.x1) : std::min(s.y0, s.y1), h1 = s.horiz ? std::max(s.x0, s.x1) : std::max(s.y0, s.y1);
                double l2 = t.horiz ? std::min(t.x0, t.x1) : std::min(t.y0, t.y1), h2 = t.horiz ? std::max(t.x0, t.x1) : std::max(t.y0, t.y1);
                double mid = (ps + pt) / 2, b1, a1, b2, a2; channel(s.horiz, mid, l1, h1, b1, a1); channel(s.horiz, mid, l2, h2, b2, a2);
                double width = std::min(a1, a2) - std::max(b1, b2);
                size_t k = 0; for (size_t z = 0; z < n; z++) { bool on = false; for (auto &u : disp[z]) if (u.horiz == s.horiz) { double pu = u.horiz ? u.y0 : u.x0; if (pu > std::max(b1, b2) - 1e-9 && pu < std::min(a1, a2) + 1e-9) on = true; /* anywhere along the corridor: the library reduces the distance for a whole channel */ } if (on) k++; }
                if (k == 2 && width > 0) {
                    double need = std::min(nd, width) - 2 * nd / 10 - 1e-6; res.count("two_sharer_pairs_checked"); res.maxi("two_sharer_shortfall", need - dist);
                    if (dist < need) res.violate("two-sharers-separated-by-less-than-the-corridor-allows" + cfg, JObj().i("connector_a", (long)x).i("connector_b", (long)y).num("distance", dist).num("nudging_distance", nd).num("corridor_width", width).raw("display_a", routej(conns[x]->displayRoute())).raw("display_b", routej(conns[y]->displayRoute())).raw("raw_a", routej(conns[x]->route())).raw("raw_b", routej(conns[y]->route())).raw("case", desc).done());
                }
            }
            if (dist < nd / 10 - 1e-6) res.violate("separated-by-less-than-a-tenth-of-the-nudging-distance" + cfg, JObj().i("connector_a", (long)x).i("connector_b", (long)y).num("distance", dist).num("nudging_distance", nd).raw("display_a", routej(conns[x]->displayRoute())).raw("display_b", routej(conns[y]->displayRoute())).raw("raw_a", routej(conns[x]->route())).raw("raw_b", routej(conns[y]->route())).raw("case", desc).done());
        }
      }
    }
    bool lib = B.router->existsOrthogonalSegmentOverlap();
    if (lib) res.count("library_existsOrthogonalSegmentOverlap_true(observation)");
    res.nontrivial = anyShared;
}

int main(int argc, char **argv) {
    return harness_main(argc, argv, "c10_nudge", [](const Args &a, long idx, bool wantDesc, CaseResult &res) {
        if (a.mode == "nudge") case_nudge(a, idx, wantDesc, res);
        else res.inconclusive = "unknown-mode";
    });
}
