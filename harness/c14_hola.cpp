// C14: doHOLA returns a clean orthogonal drawing of the same graph.
#include "dialect_common.h"
#include "libdialect/opts.h"
#include "libdialect/hola.h"

using namespace dc;
using namespace dialect;

static bool g_wholeTree = false;
static void judge_hola(Graph &G, const std::vector<Node_SP> &ns, const std::vector<std::pair<double, double>> &dims, const std::set<std::pair<id_type, id_type>> &edgesBefore, const std::string &desc, CaseResult &res) {
    size_t n = ns.size();
    auto wit = [&](JObj o) { return o.raw("case", desc).done(); };
    // same nodes and edges
    if (G.getNumNodes() != n) res.violate("node-set-changed", wit(JObj().i("nodes_after", (long)G.getNumNodes()).i("nodes_before", (long)n)));
    for (auto &u : ns) if (!G.getNodeLookup().count(u->id())) { res.violate("node-set-changed", wit(JObj().i("missing_node", u->id()))); break; }
    std::multiset<std::pair<id_type, id_type>> ea; for (auto &p : G.getEdgeLookup()) { id_type s = p.second->getSourceEnd()->id(), t = p.second->getTargetEnd()->id(); ea.insert({std::min(s, t), std::max(s, t)}); }
    std::multiset<std::pair<id_type, id_type>> eb(edgesBefore.begin(), edgesBefore.end());
    if (ea != eb) res.violate("edge-set-changed", wit(JObj().i("edges_after", (long)ea.size()).i("edges_before", (long)eb.size())));
    // sizes, overlaps
    std::vector<BoundingBox> bb; JArr fj;
    for (size_t i = 0; i < n; i++) { BoundingBox b = ns[i]->getBoundingBox(); bb.push_back(b); fj.raw(JArr().num(b.x).num(b.y).num(b.X).num(b.Y).done());
        if (!std::isfinite(b.x) || !std::isfinite(b.y) || !std::isfinite(b.X) || !std::isfinite(b.Y)) { res.violate("non-finite-node-position", wit(JObj().i("node", (long)i))); return; }
        if (std::fabs(b.w() - dims[i].first) > 1e-6 || std::fabs(b.h() - dims[i].second) > 1e-6) { res.violate("node-size-changed", wit(JObj().i("node", (long)i).num("w", b.w()).num("h", b.h()).num("w0", dims[i].first).num("h0", dims[i].second))); break; } }
    for (size_t i = 0; i < n; i++) for (size_t j = i + 1; j < n; j++) { double ox = std::min(bb[i].X, bb[j].X) - std::max(bb[i].x, bb[j].x), oy = std::min(bb[i].Y, bb[j].Y) - std::max(bb[i].y, bb[j].y); res.count("node_pairs_checked"); if (ox > 1e-6 && oy > 1e-6) { res.violate("nodes-overlap", wit(JObj().i("i", (long)i).i("j", (long)j).num("overlap_x", ox).num("overlap_y", oy).raw("boxes", fj.done()))); i = n; break; } }
    // routes
    std::map<id_type, size_t> ix; for (size_t i = 0; i < n; i++) ix[ns[i]->id()] = i;
    double pad = G.getIEL(); bool anyBend = false;
    for (auto &p : G.getEdgeLookup()) {
        Edge_SP e = p.second; std::vector<Avoid::Point> r = e->getRoutePoints(); res.count("edges_checked");
        JArr rj; for (auto &q : r) rj.raw(JArr().num(q.x).num(q.y).done());
        if (r.size() < 2) { res.violate("edge-without-route", wit(JObj().i("points", (long)r.size()))); continue; }
        if (r.size() > 2) anyBend = true;
        size_t si = ix[e->getSourceEnd()->id()], ti = ix[e->getTargetEnd()->id()];
        bool diag = false, through = false; size_t tn = 0;
        for (size_t k = 1; k < r.size(); k++) {
            if (std::fabs(r[k].x - r[k - 1].x) > 1e-6 && std::fabs(r[k].y - r[k - 1].y) > 1e-6) diag = true;
            for (size_t i = 0; i < n; i++) { if (i == si || i == ti) continue; double x0 = std::min(r[k].x, r[k - 1].x), x1 = std::max(r[k].x, r[k - 1].x), y0 = std::min(r[k].y, r[k - 1].y), y1 = std::max(r[k].y, r[k - 1].y); if (x1 > bb[i].x + 1e-6 && x0 < bb[i].X - 1e-6 && y1 > bb[i].y + 1e-6 && y0 < bb[i].Y - 1e-6) { through = true; tn = i; } }
        }
        if (diag) res.violate(g_wholeTree ? "edge-route-not-orthogonal[whole-graph-is-a-tree]" : "edge-route-not-orthogonal", wit(JObj().raw("route", rj.done())));
        if (through) res.violate(g_wholeTree ? "edge-route-through-other-node[whole-graph-is-a-tree]" : "edge-route-through-other-node", wit(JObj().i("node", (long)tn).raw("route", rj.done()).raw("boxes", fj.done())));
        auto inside = [&](const Avoid::Point &q, const BoundingBox &b) { return q.x >= b.x - pad && q.x <= b.X + pad && q.y >= b.y - pad && q.y <= b.Y + pad; };
        bool ok = (inside(r.front(), bb[si]) && inside(r.back(), bb[ti])) || (inside(r.front(), bb[ti]) && inside(r.back(), bb[si]));
        if (!ok) res.violate("edge-route-ends-away-from-its-nodes", wit(JObj().raw("route", rj.done()).raw("boxes", fj.done()).num("padding_allowed", pad)));
    }
    // returned separation constraints hold for the returned positions (own interpreter of the TGLF the graph writes)
    {
        TglfDoc doc; std::string t = G.writeTglf(false);
        if (!parseTglf(t, doc)) { res.inconclusive = "could-not-parse-written-tglf"; return; }
        for (auto &s : doc.sepcos) {
            if (!doc.nodes.count(s.a) || !doc.nodes.count(s.b)) { res.violate("sepco-names-unknown-node", wit(JObj().str("sepco", s.text))); continue; }
            // evaluate on the live node geometry, not on the rounded numbers in the text
            auto live = [&](unsigned id) { Box b{0, 0, 0, 0}; for (auto &u : ns) if (u->id() == id) { BoundingBox q = u->getBoundingBox(); b = Box{(q.x + q.X) / 2, (q.y + q.Y) / 2, q.w(), q.h()}; } return b; };
            bool onlyAlign = false; double v = sepViolation(s, live(s.a), live(s.b), &onlyAlign); res.count("sepcos_checked"); res.maxi("max_sepco_violation", v);
            // signature of F52: a cardinal (N/S/E/W) constraint whose separation part holds but whose implied alignment does not
            if (v > 1e-3 + 0.0006) res.violate(g_wholeTree ? "returned-separation-constraint-not-satisfied[whole-graph-is-a-tree]" : onlyAlign ? "returned-cardinal-constraint-alignment-not-satisfied" : "returned-separation-constraint-not-satisfied", wit(JObj().str("sepco", s.text).num("violation", v).raw("boxes", fj.done())));
        }
    }
    if (anyBend) res.count("graphs_with_bent_edges");
}

static void case_random(const Args &a, long idx, bool wantDesc, CaseResult &res) {
    Rng R(mix(mix(a.seed, 0xC14), (uint64_t)idx));
    int n; std::set<std::pair<int, int>> E; std::string kind; gen_graph(R, n, E, kind);
    Graph G; std::vector<Node_SP> ns; std::vector<std::pair<double, double>> dims; JArr nj;
    bool uniform = R.coin(0.3);
    for (int i = 0; i < n; i++) { double w = uniform ? 30 : R.rd(10, 70), h = uniform ? 30 : R.rd(10, 70), x = R.rd(0, 500), y = R.rd(0, 500); Node_SP u = G.addNode(x, y, w, h); ns.push_back(u); dims.push_back({w, h}); nj.raw(JArr().num(x).num(y).num(w).num(h).done()); }
    std::set<std::pair<id_type, id_type>> eb; JArr ej;
    for (auto &e : E) { G.addEdge(ns[e.first], ns[e.second]); id_type s = ns[e.first]->id(), t = ns[e.second]->id(); eb.insert({std::min(s, t), std::max(s, t)}); ej.raw(JArr().i(e.first).i(e.second).done()); }
    HolaOpts opts;
    opts.useACAforLinks = R.coin(0.6); opts.do_near_align = R.coin(0.7);
    opts.preferredAspectRatio = R.coin(0.5) ? AspectRatioClass::LANDSCAPE : (R.coin() ? AspectRatioClass::PORTRAIT : AspectRatioClass::NONE);
    if (R.coin(0.3)) opts.nodePaddingScalar = R.rd(0.1, 0.6);
    if (R.coin(0.2)) opts.preferConvexTrees = false;
    if (R.coin(0.2)) opts.preferredTreeGrowthDir = (CardinalDir)R.ri(0, 3);
    if (R.coin(0.2)) opts.putUlcAtOrigin = false;
    if (R.coin(0.35)) opts.defaultTreeGrowthDir = (CardinalDir)R.ri(0, 3);   // used when the whole graph is a tree
    // drawn last so that the cases generated before this option was varied keep their other settings
    if (R.coin(0.3)) opts.peeledTreeRouting = R.coin() ? TreeRoutingType::STRICT : TreeRoutingType::MONOTONIC;
    if (R.coin(0.2)) opts.wholeTreeRouting = R.coin() ? TreeRoutingType::STRICT : TreeRoutingType::CORE_ATTACHMENT;
    std::string desc = JObj().str("kind", kind).raw("nodes_cx_cy_w_h", nj.done()).raw("edges", ej.done()).i("defaultTreeGrowthDir", (int)opts.defaultTreeGrowthDir).i("peeledTreeRouting", (int)opts.peeledTreeRouting).i("wholeTreeRouting", (int)opts.wholeTreeRouting).b("useACAforLinks", opts.useACAforLinks).b("do_near_align", opts.do_near_align).i("preferredAspectRatio", (int)opts.preferredAspectRatio).num("nodePaddingScalar", opts.nodePaddingScalar).done();
    Digest D; D.s(desc); res.digest = D.h; res.gen = kind; if (wantDesc) res.desc = desc;
    if (a.pl("describe_only", 0)) { res.inconclusive = "describe-only"; return; }   // (for writing up a case that hangs)
    // non-trivial: has a core and at least one peeled tree, i.e. some leaf and some cycle
    { std::vector<int> deg(n, 0); for (auto &e : E) { deg[e.first]++; deg[e.second]++; } bool leaf = false; for (int d : deg) if (d == 1) leaf = true; bool cyc = (int)E.size() >= n; res.nontrivial = leaf && cyc; }
    set_stage("doHOLA");
    int efd = dup(2); int nul = open("/dev/null", O_WRONLY); dup2(nul, 2); close(nul);
    struct EG { int fd; ~EG() { dup2(fd, 2); close(fd); } } eg{efd};
    try { doHOLA(G, opts); }
    catch (std::runtime_error &e) { res.inconclusive = std::string("doHOLA-threw-runtime_error"); res.count(std::string("threw: ") + short_what(e.what()).substr(0, 60)); return; }
    set_stage("oracle");
    g_wholeTree = (int)E.size() == n - 1;
    judge_hola(G, ns, dims, eb, desc, res);
    if (g_wholeTree) { static const char *dn[] = {"EAST", "SOUTH", "WEST", "NORTH"}; std::string d = dn[(int)opts.defaultTreeGrowthDir & 3]; res.count("whole_tree_cases.growing_" + d);
        // one verdict per case (the first unsatisfied constraint), tagged with the growth direction
        bool any = false; std::vector<Finding> keep; for (auto &f : res.findings) { if (f.key.find("returned-separation-constraint-not-satisfied[whole-graph-is-a-tree]") == 0) { if (any) continue; f.key = "returned-separation-constraint-not-satisfied[whole-graph-is-a-tree,growing-" + d + "]"; any = true; } keep.push_back(f); } res.findings = keep;
        if (any) res.count("whole_tree_cases_with_unsatisfied_constraints.growing_" + d); }
    if (res.obs.count("graphs_with_bent_edges")) res.nontrivial = true;
}

// the TGLF graphs shipped with the library's tests
static void case_shipped(const Args &a, long idx, bool wantDesc, CaseResult &res) {
    static std::vector<std::string> files;
    if (files.empty()) {
        const char *root = getenv("VERIF_REPO") ? getenv("VERIF_REPO") : "/repo";
        std::string cmd = std::string("find ") + root + "/cola/libdialect/tests/graphs -name '*.tglf' | sort"; FILE *p = popen(cmd.c_str(), "r"); char buf[1024]; while (p && fgets(buf, sizeof buf, p)) { std::string s(buf); while (!s.empty() && (s.back() == '\n' || s.back() == '\r')) s.pop_back(); if (!s.empty()) files.push_back(s); } if (p) pclose(p);
    }
    if (files.empty()) { res.inconclusive = "no-shipped-graphs-found"; return; }
    const std::string &f = files[(size_t)idx % files.size()];
    res.gen = "shipped-tglf"; res.digest = std::hash<std::string>()(f) ^ (uint64_t)(idx / (long)files.size());
    std::string desc = JObj().str("file", f.substr(f.find("/cola/"))).done(); if (wantDesc) res.desc = desc;
    Graph_SP G = buildGraphFromTglfFile(f);
    if (!G) { res.inconclusive = "could-not-read-file"; return; }
    if (G->getNumNodes() > 120) { res.inconclusive = ""; res.count("skipped_large_shipped_graph"); return; }
    if (G->getConnComps().size() != 1) { res.count("skipped_disconnected_shipped_graph"); return; }
    std::vector<Node_SP> ns; std::vector<std::pair<double, double>> dims; for (auto &p : G->getNodeLookup()) { ns.push_back(p.second); BoundingBox b = p.second->getBoundingBox(); dims.push_back({b.w(), b.h()}); }
    std::set<std::pair<id_type, id_type>> eb; std::multiset<std::pair<id_type, id_type>> em; for (auto &p : G->getEdgeLookup()) { id_type s = p.second->getSourceEnd()->id(), t = p.second->getTargetEnd()->id(); em.insert({std::min(s, t), std::max(s, t)}); } for (auto &e : em) { if (em.count(e) > 1) { res.count("skipped_multigraph"); return; } eb.insert(e); }
    G->getSepMatrix().clear(); for (auto &p : G->getEdgeLookup()) p.second->setRoute(std::vector<Avoid::Point>());
    HolaOpts opts; if ((idx / (long)files.size()) % 2) opts.useACAforLinks = false;
    set_stage("doHOLA(shipped)");
    int efd = dup(2); int nul = open("/dev/null", O_WRONLY); dup2(nul, 2); close(nul);
    struct EG { int fd; ~EG() { dup2(fd, 2); close(fd); } } eg{efd};
    try { doHOLA(*G, opts); } catch (std::runtime_error &e) { res.inconclusive = "doHOLA-threw-runtime_error"; return; }
    res.nontrivial = true;
    g_wholeTree = G->getNumEdges() + 1 == G->getNumNodes();
    judge_hola(*G, ns, dims, eb, desc, res);
}

int main(int argc, char **argv) {
    return harness_main(argc, argv, "c14_hola", [](const Args &a, long idx, bool wantDesc, CaseResult &res) {
        if (a.mode == "random") case_random(a, idx, wantDesc, res);
        else if (a.mode == "shipped") case_shipped(a, idx, wantDesc, res);
        else res.inconclusive = "unknown-mode";
    });
}
