// C07 / C08: libcola layout output satisfies every compound constraint or reports it; overlap avoidance and cluster containment.
// Each compound-constraint type has an independent evaluator written from its documented meaning and applied to the final
// rectangle centres.
#include "common.h"
#include <array>
#include "libcola/cola.h"
#include "libcola/cluster.h"
#include "libcola/compound_constraints.h"
#include "libvpsc/rectangle.h"

using namespace vf;

struct PageSpec { cola::PageBoundaryConstraints *cc; std::vector<unsigned> ids; };
struct AlignSpec { int dim; std::vector<unsigned> ids; std::vector<double> off; cola::AlignmentConstraint *cc; };
struct CSpec {
    std::string type; int dim = 0; cola::CompoundConstraint *cc = nullptr;
    unsigned l = 0, r = 0; double gap = 0; bool eq = false;          // separation
    int al = -1, ar = -1;                                            // separation between alignments
    int align = -1;                                                  // alignment index
    std::vector<unsigned> ids; std::vector<double> off;               // boundary
    std::vector<std::pair<int, int>> pairs; double sep = 0;           // distribution / multi-separation
    std::vector<double> relx, rely;                                   // fixed relative: initial offsets to the first member
};

static double centre(const vpsc::Rectangle *r, int dim) { return dim == 0 ? r->getCentreX() : r->getCentreY(); }
static double alignPos(const AlignSpec &a, const vpsc::Rectangles &rs) { double s = 0; for (size_t k = 0; k < a.ids.size(); k++) s += centre(rs[a.ids[k]], a.dim) - a.off[k]; return s / (double)a.ids.size(); }

// returns the violation amount (<= tol means satisfied)
static double evaluate(const CSpec &c, const std::vector<AlignSpec> &als, const vpsc::Rectangles &rs) {
    if (c.type == "separation") { double s = centre(rs[c.l], c.dim) + c.gap - centre(rs[c.r], c.dim); return c.eq ? std::fabs(s) : s; }
    if (c.type == "separation-of-alignments") { double s = alignPos(als[c.al], rs) + c.gap - alignPos(als[c.ar], rs); return c.eq ? std::fabs(s) : s; }
    if (c.type == "alignment") { const AlignSpec &a = als[c.align]; double mn = 1e300, mx = -1e300; for (size_t k = 0; k < a.ids.size(); k++) { double p = centre(rs[a.ids[k]], a.dim) - a.off[k]; mn = std::min(mn, p); mx = std::max(mx, p); } return mx - mn; }
    if (c.type == "boundary") { double left = -1e300, right = 1e300; for (size_t k = 0; k < c.ids.size(); k++) { double q = centre(rs[c.ids[k]], c.dim) - c.off[k]; if (c.off[k] < 0) left = std::max(left, q); else right = std::min(right, q); } return (left == -1e300 || right == 1e300) ? 0.0 : left - right; }
    if (c.type == "distribution") { double w = 0; for (auto &p : c.pairs) w = std::max(w, std::fabs(alignPos(als[p.second], rs) - alignPos(als[p.first], rs) - c.sep)); return w; }
    if (c.type == "multi-separation") { double w = -1e300; for (auto &p : c.pairs) { double s = alignPos(als[p.first], rs) + c.sep - alignPos(als[p.second], rs); w = std::max(w, c.eq ? std::fabs(s) : s); } return c.pairs.empty() ? 0.0 : w; }
    if (c.type == "fixed-relative") { double w = 0; for (size_t k = 1; k < c.ids.size(); k++) { w = std::max(w, std::fabs((rs[c.ids[k]]->getCentreX() - rs[c.ids[0]]->getCentreX()) - c.relx[k])); w = std::max(w, std::fabs((rs[c.ids[k]]->getCentreY() - rs[c.ids[0]]->getCentreY()) - c.rely[k])); } return w; }
    return 0;
}
static std::string cjson(const CSpec &c, const std::vector<AlignSpec> &als) {
    JObj o; o.str("type", c.type).i("dim", c.dim);
    if (c.type == "separation") o.i("left", c.l).i("right", c.r).num("gap", c.gap).b("equality", c.eq);
    if (c.type == "separation-of-alignments") o.i("leftAlignment", c.al).i("rightAlignment", c.ar).num("gap", c.gap).b("equality", c.eq);
    if (c.type == "alignment") { const AlignSpec &a = als[c.align]; JArr ids; for (auto v : a.ids) ids.i(v); o.i("alignment", c.align).raw("nodes", ids.done()).raw("offsets", jnums(a.off)); }
    if (c.type == "boundary") { JArr ids; for (auto v : c.ids) ids.i(v); o.raw("nodes", ids.done()).raw("offsets", jnums(c.off)); }
    if (c.type == "distribution" || c.type == "multi-separation") { JArr ps; for (auto &p : c.pairs) ps.raw(JArr().i(p.first).i(p.second).done()); o.raw("alignment_pairs", ps.done()).num("sep", c.sep).b("equality", c.eq); }
    if (c.type == "fixed-relative") { JArr ids; for (auto v : c.ids) ids.i(v); o.raw("nodes", ids.done()); }
    return o.done();
}

struct ClusterSpec { std::vector<unsigned> nodes; std::vector<int> children; double padding = 0, margin = 0; int parent = -1; };

static void case_layout(const Args &a, long idx, bool wantDesc, CaseResult &res, bool overlapMode) {
    Rng R(mix(mix(a.seed, overlapMode ? 0xC08 : 0xC07), (uint64_t)idx));
    unsigned n = (unsigned)(R.coin(0.7) ? R.ri(1, 14) : R.ri(15, overlapMode ? 35 : 60));
    // graph
    int gk = (int)R.ri(0, 3); std::vector<cola::Edge> es;
    if (gk == 0) { for (unsigned i = 1; i < n; i++) es.push_back(cola::Edge((unsigned)R.ri(0, i - 1), i)); }                       // tree
    else if (gk == 1) { for (unsigned i = 1; i < n; i++) if (R.coin(0.8)) es.push_back(cola::Edge((unsigned)R.ri(0, i - 1), i)); unsigned extra = (unsigned)R.ri(0, n); for (unsigned e = 0; e < extra && n > 1; e++) { unsigned u = (unsigned)R.ri(0, n - 1), v = (unsigned)R.ri(0, n - 1); if (u != v) es.push_back(cola::Edge(u, v)); } }
    else if (gk == 2) { for (unsigned i = 1; i < n; i++) if (R.coin(0.4)) es.push_back(cola::Edge((unsigned)R.ri(0, i - 1), i)); }   // disconnected
    // gk==3: edgeless
    // rectangles
    int pk = (int)R.ri(0, 3); double span = pk == 0 ? 400 : pk == 1 ? 40 : 200;
    vpsc::Rectangles rs; std::vector<double> W, H; JArr rj;
    for (unsigned i = 0; i < n; i++) {
        double w = R.rd(5, 45), h = R.rd(5, 45), x = R.rd(0, span), y = R.rd(0, span);
        if (pk == 2 && i > 0 && R.coin(0.3)) { x = rs[0]->getMinX(); y = rs[0]->getMinY(); }             // coincident
        if (pk == 3) { y = 100; }                                                                          // collinear
        if (overlapMode && pk == 1 && i > 0 && R.coin(0.2)) { w = W[0] * 0.5; h = H[0] * 0.5; x = rs[0]->getMinX() + 1; y = rs[0]->getMinY() + 1; }   // nested
        W.push_back(w); H.push_back(h); rs.push_back(new vpsc::Rectangle(x, x + w, y, y + h)); rj.raw(JArr().num(x).num(y).num(w).num(h).done());
    }
    struct RG { vpsc::Rectangles &r; ~RG() { for (auto p : r) delete p; } } rg{rs};
    // hidden witness placement on a coarse lattice (non-overlapping when overlapMode): constraints derived from it are jointly satisfiable
    bool satisfiable = overlapMode ? true : R.coin(0.6);
    std::vector<double> hx(n), hy(n);
    { std::vector<int> cells; int side = (int)std::ceil(std::sqrt((double)n)) + 2; for (int c = 0; c < side * side; c++) cells.push_back(c); R.shuffle(cells); for (unsigned i = 0; i < n; i++) { hx[i] = (cells[i] % side) * 60.0; hy[i] = (cells[i] / side) * 60.0; } }
    cola::CompoundConstraints ccs; std::vector<CSpec> specs; std::vector<AlignSpec> als; std::vector<PageSpec> pages;
    struct CG { cola::CompoundConstraints &c; ~CG() { for (auto p : c) delete p; } } cg{ccs};
    auto hp = [&](unsigned i, int dim) { return dim == 0 ? hx[i] : hy[i]; };
    // a "locked pair": two nodes tied together in both dimensions by satisfiable user constraints (an equality separation in x that is smaller than their widths
    // and an alignment in y) so that, with overlap avoidance, their overlap cannot be removed in either dimension; judged straight after makeFeasible()
    bool lockedPair = !overlapMode && n >= 2 && R.coin(a.tier == "thorough" ? 0.002 : 0.012);   // about 4% of these run into the recorded non-termination F7, one watchdog period each
    if (lockedPair) {
        unsigned u = (unsigned)R.ri(0, n - 1), v = (unsigned)R.ri(0, n - 2); if (v >= u) v++;
        double gx = R.rd(0, 0.4) * (W[u] + W[v]) / 2, oy = R.rd(-0.4, 0.4) * (H[u] + H[v]) / 2; int d0 = (int)R.ri(0, 1);   // d0: the dimension of the separation
        (d0 ? hy : hx)[v] = (d0 ? hy : hx)[u] + gx; (d0 ? hx : hy)[v] = (d0 ? hx : hy)[u] + oy;
        CSpec c; c.type = "separation"; c.dim = d0; c.eq = true; c.gap = gx; c.l = u; c.r = v; c.cc = new cola::SeparationConstraint((vpsc::Dim)d0, u, v, gx, true); ccs.push_back(c.cc); specs.push_back(c);
        AlignSpec al; al.dim = 1 - d0; cola::AlignmentConstraint *ac = new cola::AlignmentConstraint((vpsc::Dim)(1 - d0), 0.0); al.ids = {u, v}; al.off = {0.0, oy}; ac->addShape(u, 0.0); ac->addShape(v, oy); al.cc = ac; als.push_back(al); ccs.push_back(ac);
        CSpec c2; c2.type = "alignment"; c2.dim = 1 - d0; c2.align = (int)als.size() - 1; c2.cc = ac; specs.push_back(c2);
        res.count("locked_pair_cases");
    }
    int ncon = n >= 2 ? (int)R.ri(0, overlapMode ? 4 : 8) : 0;
    bool clusters = overlapMode && n >= 4 && R.coin(0.4);
    for (int k = 0; k < ncon; k++) {
        int t = (int)R.ri(0, 9); int dim = (int)R.ri(0, 1);
        if (t <= 2) {   // separation
            unsigned u = (unsigned)R.ri(0, n - 1), v = (unsigned)R.ri(0, n - 1); if (u == v) continue;
            CSpec c; c.type = "separation"; c.dim = dim; c.eq = R.coin(0.25);
            if (satisfiable) { if (hp(u, dim) > hp(v, dim)) std::swap(u, v); double diff = hp(v, dim) - hp(u, dim); c.gap = c.eq ? diff : diff * R.rd(0, 1); if (overlapMode && !c.eq) c.gap = std::min(c.gap, diff);
                // a bounded-distance constraint: v may be at most diff+slack beyond u (a separation with a negative gap in the other direction)
                if (!c.eq && R.coin(0.3)) { std::swap(u, v); c.gap = -(diff + R.rd(0, 40)); } }
            else c.gap = R.rd(-20, 120);
            c.l = u; c.r = v; c.cc = new cola::SeparationConstraint((vpsc::Dim)dim, u, v, c.gap, c.eq); ccs.push_back(c.cc); specs.push_back(c);
            // now and then a second, different separation over the very same ordered pair (both are distinct user constraints, reported separately)
            if (!c.eq && !overlapMode && R.coin(0.12)) { CSpec c2 = c; c2.gap = satisfiable ? c.gap * R.rd(0, 1) : c.gap + R.rd(5, 40); c2.cc = new cola::SeparationConstraint((vpsc::Dim)dim, u, v, c2.gap, false); ccs.push_back(c2.cc); specs.push_back(c2); res.count("second_separations_on_the_same_ordered_pair"); }
        } else if (t <= 4) {   // alignment (optionally fixed position)
            AlignSpec al; al.dim = dim; unsigned base = (unsigned)R.ri(0, n - 1);
            cola::AlignmentConstraint *ac = new cola::AlignmentConstraint((vpsc::Dim)dim, R.coin(0.3) ? R.rd(0, 300) : 0.0);
            for (unsigned i = 0; i < n; i++) if (i == base || R.coin(0.25)) {
                double off = satisfiable ? hp(i, dim) - hp(base, dim) : (double)R.ri(-3, 3) * 10;
                if (overlapMode && satisfiable && hp(i, dim) != hp(base, dim)) continue;   // keep witness non-overlapping: align only nodes of one lattice line with zero offset
                al.ids.push_back(i); al.off.push_back(off); ac->addShape(i, off);
            }
            if (R.coin(0.15)) ac->fixPos(R.rd(0, 300));
            al.cc = ac; als.push_back(al); ccs.push_back(ac);
            CSpec c; c.type = "alignment"; c.dim = dim; c.align = (int)als.size() - 1; c.cc = ac; specs.push_back(c);
        } else if (t == 5 && !overlapMode) {   // boundary
            CSpec c; c.type = "boundary"; c.dim = dim; cola::BoundaryConstraint *bc = new cola::BoundaryConstraint((vpsc::Dim)dim);
            double line = R.rd(0, 300);
            for (unsigned i = 0; i < n; i++) if (R.coin(0.4)) {
                double off; if (satisfiable) { line = 0; off = 0; }
                off = (R.coin() ? -1 : 1) * R.rd(3, 30);
                bool zero = R.coin(0.12);   // offset exactly 0: "negative if left-of", so 0 counts as right-of (what both code sites do)
                if (zero) off = 0;
                if (satisfiable && zero) { if (hp(i, dim) < 150) continue; }
                else if (satisfiable) { // witness: left-of nodes have hp - off <= L <= hp - off of right-of nodes, choose L = median and sign by side
                    double L = 150; off = hp(i, dim) < L ? -std::min(R.rd(3, 30), L - hp(i, dim)) : std::min(R.rd(3, 30), std::max(0.0, hp(i, dim) - L)); if (off == 0) continue; }
                c.ids.push_back(i); c.off.push_back(off); bc->addShape(i, off);
            }
            (void)line;
            if (c.ids.empty()) { delete bc; continue; }
            c.cc = bc; ccs.push_back(bc); specs.push_back(c);
        } else if (t == 6 && als.size() >= 2 && !overlapMode) {   // separation between alignments / multi-separation / distribution
            std::vector<int> same; for (size_t q = 0; q < als.size(); q++) if (als[q].dim == dim) same.push_back((int)q);
            if (same.size() < 2) continue;
            int which = (int)R.ri(0, 2);
            auto wpos = [&](int q) { return hp(als[q].ids[0], als[q].dim) - als[q].off[0]; };   // witness position of an alignment line
            std::sort(same.begin(), same.end(), [&](int x, int y) { return wpos(x) < wpos(y); });
            if (which == 0) {
                CSpec c; c.type = "separation-of-alignments"; c.dim = dim; c.al = same[0]; c.ar = same[1]; c.eq = R.coin(0.3);
                double diff = wpos(same[1]) - wpos(same[0]); c.gap = satisfiable ? (c.eq ? diff : diff * R.rd(0, 1)) : R.rd(0, 100);
                c.cc = new cola::SeparationConstraint((vpsc::Dim)dim, als[c.al].cc, als[c.ar].cc, c.gap, c.eq); ccs.push_back(c.cc); specs.push_back(c);
            } else if (which == 1) {
                CSpec c; c.type = "multi-separation"; c.dim = dim; c.eq = false; double mind = 1e300; for (size_t q = 1; q < same.size(); q++) mind = std::min(mind, wpos(same[q]) - wpos(same[q - 1]));
                c.sep = satisfiable ? std::max(0.0, mind) * R.rd(0, 1) : R.rd(0, 80);
                cola::MultiSeparationConstraint *mc = new cola::MultiSeparationConstraint((vpsc::Dim)dim, c.sep, false);
                for (size_t q = 1; q < same.size(); q++) { mc->addAlignmentPair(als[same[q - 1]].cc, als[same[q]].cc); c.pairs.push_back({same[q - 1], same[q]}); }
                c.cc = mc; ccs.push_back(mc); specs.push_back(c);
            } else {
                // distribution needs equal spacing: only when the witness lines are equally spaced (or in the arbitrary regime)
                bool equal = true; double d0 = wpos(same[1]) - wpos(same[0]); for (size_t q = 2; q < same.size(); q++) if (std::fabs((wpos(same[q]) - wpos(same[q - 1])) - d0) > 1e-9) equal = false;
                if (satisfiable && !equal) continue;
                CSpec c; c.type = "distribution"; c.dim = dim; c.sep = satisfiable ? d0 : R.rd(10, 80);
                cola::DistributionConstraint *dc = new cola::DistributionConstraint((vpsc::Dim)dim);
                for (size_t q = 1; q < same.size(); q++) { dc->addAlignmentPair(als[same[q - 1]].cc, als[same[q]].cc); c.pairs.push_back({same[q - 1], same[q]}); }
                dc->setSeparation(c.sep); c.cc = dc; ccs.push_back(dc); specs.push_back(c);
            }
        } else if (t == 7 && !overlapMode && !satisfiable) {   // fixed relative (uses the INITIAL placement, so only in the arbitrary regime together with others)
            CSpec c; c.type = "fixed-relative"; for (unsigned i = 0; i < n; i++) if (R.coin(0.3)) c.ids.push_back(i);
            if (c.ids.size() < 2) continue;
            for (auto id : c.ids) { c.relx.push_back(rs[id]->getCentreX() - rs[c.ids[0]]->getCentreX()); c.rely.push_back(rs[id]->getCentreY() - rs[c.ids[0]]->getCentreY()); }
            c.cc = new cola::FixedRelativeConstraint(rs, c.ids, R.coin(0.3)); ccs.push_back(c.cc); specs.push_back(c);
        } else if (t == 8 && !overlapMode) {   // page boundary: the page itself is soft ("balloons out"); its members must lie within the ACTUAL margins it reports
            bool tight = R.coin(0.5); double lo = tight ? R.rd(100, 200) : 0, hi = tight ? lo + R.rd(60, 200) : 500;
            cola::PageBoundaryConstraints *pb = new cola::PageBoundaryConstraints(lo, hi, lo, hi, tight ? R.rd(1, 1000) : 100.0);
            PageSpec ps; ps.cc = pb; for (unsigned i = 0; i < n; i++) if (R.coin(0.5)) { pb->addShape(i, W[i] / 2, H[i] / 2); ps.ids.push_back(i); }
            ccs.push_back(pb); pages.push_back(ps); res.count("page_boundary_constraints");
        }
    }
    // a lone fixed-relative case in the satisfiable regime (no other constraints on its members) is exercised separately
    if (!overlapMode && satisfiable && n >= 3 && R.coin(0.15)) {
        CSpec c; c.type = "fixed-relative"; std::set<unsigned> used; for (auto &s : specs) { if (s.type == "separation") { used.insert(s.l); used.insert(s.r); } for (auto v : s.ids) used.insert(v); } for (auto &al : als) for (auto v : al.ids) used.insert(v);
        for (unsigned i = 0; i < n; i++) if (!used.count(i) && R.coin(0.6)) c.ids.push_back(i);
        if (c.ids.size() >= 2) { for (auto id : c.ids) { c.relx.push_back(rs[id]->getCentreX() - rs[c.ids[0]]->getCentreX()); c.rely.push_back(rs[id]->getCentreY() - rs[c.ids[0]]->getCentreY()); } c.cc = new cola::FixedRelativeConstraint(rs, c.ids, false); ccs.push_back(c.cc); specs.push_back(c); }
    }
    // clusters (overlap mode): depth <= 2 hierarchy of rectangular clusters over disjoint node sets
    cola::RootCluster *root = nullptr; std::vector<ClusterSpec> cls; std::vector<int> clusterOf(n, -1);
    if (clusters) {
        root = new cola::RootCluster();
        int nc = (int)R.ri(1, 3); std::vector<unsigned> ids; for (unsigned i = 0; i < n; i++) ids.push_back(i); R.shuffle(ids); size_t pos = 0;
        std::vector<cola::RectangularCluster *> objs; bool forceChild = false;
        for (int c = 0; c < nc && pos + 2 <= ids.size(); c++) {
            ClusterSpec cs; int sz = (int)R.ri(1, std::max(1, (int)std::min<size_t>(4, (ids.size() - pos) / (size_t)(nc - c))));
            // a cluster without nodes of its own, holding only the next cluster
            bool emptyParent = !forceChild && c + 1 < nc && pos + 2 <= ids.size() && R.coin(0.2); if (emptyParent) { sz = 0; res.count("clusters_holding_only_a_child_cluster"); }
            cola::RectangularCluster *rc = new cola::RectangularCluster();
            for (int q = 0; q < sz; q++) { cs.nodes.push_back(ids[pos]); clusterOf[ids[pos]] = (int)cls.size(); rc->addChildNode(ids[pos]); pos++; }
            if (R.coin(0.5)) { cs.padding = (double)R.ri(1, 8); rc->setPadding(cs.padding); }
            if (R.coin(0.3)) { cs.margin = (double)R.ri(1, 6); rc->setMargin(cs.margin); }
            // nested: make this cluster a child of the previous one sometimes
            if (!objs.empty() && (forceChild || R.coin(0.3))) { cs.parent = (int)cls.size() - 1; objs.back()->addChildCluster(rc); cls[cs.parent].children.push_back((int)cls.size()); } else root->addChildCluster(rc);
            objs.push_back(rc); cls.push_back(cs); forceChild = emptyParent;
        }
        for (unsigned i = 0; i < n; i++) if (clusterOf[i] < 0 && R.coin(0.7)) root->addChildNode(i);
    }
    struct KG { cola::RootCluster *&r; ~KG() { delete r; } } kg{root};
    // exemption groups (overlap mode)
    std::vector<std::vector<unsigned>> exempt; std::set<std::pair<unsigned, unsigned>> exemptPairs;
    if (overlapMode && !clusters && n >= 3 && R.coin(0.3)) { int ng = (int)R.ri(1, 3); for (int q = 0; q < ng; q++) { std::vector<unsigned> g; for (unsigned i = 0; i < n; i++) if (R.coin(0.3)) g.push_back(i); if (g.size() >= 2) { exempt.push_back(g); for (auto x : g) for (auto y : g) if (x < y) exemptPairs.insert({x, y}); } } }
    // history: the option is set once with other groups and then replaced ("setAvoidNodeOverlaps() ... New boolean value"): only the last call counts
    std::vector<std::vector<unsigned>> decoy;
    if (overlapMode && !clusters && n >= 3 && R.coin(0.25)) { std::vector<unsigned> g; for (unsigned i = 0; i < n; i++) if (R.coin(0.5)) g.push_back(i); if (g.size() >= 2) decoy.push_back(g); }

    int driver = overlapMode ? 1 : (int)R.ri(0, 3);   // 0 run, 1 makeFeasible+run, 2 runOnce x k, 3 majorization, 4 makeFeasible alone
    bool feasibleOnly = driver == 1 && R.coin(overlapMode ? 0.15 : 0.4);   // "after makeFeasible() and/or run()": judged straight after makeFeasible()
    if (feasibleOnly) { driver = 4; res.count(satisfiable ? "makeFeasible_only_cases_satisfiable" : "makeFeasible_only_cases_contradictory"); }
    static const char *dn[] = {"run", "makeFeasible+run", "runOnce*k+run", "majorization.run", "makeFeasible"};
    bool avoidOverlaps = overlapMode || ((driver <= 1 || driver == 4) && R.coin(driver == 4 ? 0.7 : 0.3)); bool neighbourStress = R.coin(0.3);
    if (lockedPair) { if (driver == 4) res.obs[std::string("makeFeasible_only_cases_") + (satisfiable ? "satisfiable" : "contradictory")]--; driver = 4; avoidOverlaps = true; res.count(satisfiable ? "locked_pair_cases_satisfiable" : "locked_pair_cases_contradictory"); }
    if (driver == 3) avoidOverlaps = false;
    double ideal = R.rd(40, 120);
    // description
    JArr ej; for (auto &e : es) ej.raw(JArr().i(e.first).i(e.second).done()); JArr cj; for (auto &c : specs) cj.raw(cjson(c, als));
    JArr clj; for (auto &c : cls) { JArr nn; for (auto v : c.nodes) nn.i(v); clj.raw(JObj().raw("nodes", nn.done()).num("padding", c.padding).num("margin", c.margin).i("parent", c.parent).done()); }
    std::string desc = JObj().i("n", n).raw("rects_x_y_w_h", rj.done()).raw("edges", ej.done()).raw("constraints", cj.done()).raw("clusters", clj.done()).str("driver", dn[driver]).b("avoidOverlaps", avoidOverlaps).b("neighbourStress", neighbourStress).num("idealLength", ideal).b("satisfiable_by_construction", satisfiable).done();
    Digest D; D.s(desc); res.digest = D.h; res.gen = std::string(overlapMode ? (clusters ? "overlap+clusters" : "overlap") : dn[driver]) + (satisfiable ? "/satisfiable" : "/arbitrary");
    if (wantDesc) res.desc = desc;
    // non-triviality
    bool initiallyViolated = false; for (auto &c : specs) if (evaluate(c, als, rs) > 1e-4) initiallyViolated = true;
    long initOverlaps = 0; for (unsigned i = 0; i < n; i++) for (unsigned j = i + 1; j < n; j++) { double ox = std::min(rs[i]->getMaxX(), rs[j]->getMaxX()) - std::max(rs[i]->getMinX(), rs[j]->getMinX()), oy = std::min(rs[i]->getMaxY(), rs[j]->getMaxY()) - std::max(rs[i]->getMinY(), rs[j]->getMinY()); if (ox > 1e-3 && oy > 1e-3) initOverlaps++; }
    res.nontrivial = overlapMode ? initOverlaps > 0 : initiallyViolated;

    if (getenv("VERIF_TRACE")) { printf("%s\n", desc.c_str()); fflush(stdout); }
    cola::UnsatisfiableConstraintInfos ux, uy;
    struct UG { cola::UnsatisfiableConstraintInfos &a, &b; ~UG() { for (auto p : a) delete p; for (auto p : b) delete p; } } ug{ux, uy};
    int efd = dup(2); int nul = open("/dev/null", O_WRONLY); dup2(nul, 2); close(nul);
    struct EG { int fd; ~EG() { dup2(fd, 2); close(fd); } } eg{efd};
    vpsc::Rectangle::setXBorder(0); vpsc::Rectangle::setYBorder(0);
    if (driver != 3) {
        cola::ConstrainedFDLayout alg(rs, es, ideal);
        alg.setConstraints(ccs); alg.setUnsatisfiableConstraintInfo(&ux, &uy);
        if (avoidOverlaps && !decoy.empty()) { alg.setAvoidNodeOverlaps(true, decoy); res.count("exemption_groups_replaced_before_layout"); }
        if (avoidOverlaps) { if (exempt.empty() && !decoy.empty()) alg.setAvoidNodeOverlaps(true); else alg.setAvoidNodeOverlaps(true, exempt); }
        if (neighbourStress) alg.setUseNeighbourStress(true);
        if (root) alg.setClusterHierarchy(root);
        if (driver == 1 || driver == 4) { set_stage("makeFeasible"); alg.makeFeasible(); }
        // the property speaks of makeFeasible() and run(); single iterations are interleaved but the judged state is the one after run()
        if (driver == 2) { int k = (int)R.ri(1, 6); set_stage("runOnce"); for (int q = 0; q < k; q++) alg.runOnce(); }
        if (driver != 4) { set_stage("run"); alg.run(); }
    } else {
        std::vector<double> el;
        cola::ConstrainedMajorizationLayout alg(rs, es, nullptr, ideal, el);
        alg.setConstraints(&ccs); alg.setUnsatisfiableConstraintInfo(&ux, &uy);
        set_stage("majorization.run"); alg.run();
    }
    vpsc::Rectangle::setXBorder(0); vpsc::Rectangle::setYBorder(0);
    set_stage("oracle");
    // ---- C07 oracle
    std::set<cola::CompoundConstraint *> excused; for (auto u : ux) excused.insert(u->cc); for (auto u : uy) excused.insert(u->cc);
    if (!excused.empty()) res.count("layouts_reporting_unsatisfiable");
    JArr infoj; long nullcc = 0;
    for (int d = 0; d < 2; d++) for (auto u : (d ? uy : ux)) { if (!u->cc) nullcc++; if (infoj.s.size() < 3000) infoj.raw(JObj().i("dim", d).i("left", u->leftVarIndex).i("right", u->rightVarIndex).num("separation", u->separation).b("equality", u->equality).b("names_a_compound_constraint", u->cc != nullptr).done()); }
    if (nullcc) res.count("unsatisfiable_infos_without_compound_constraint", nullcc);
    bool finite = true;
    for (unsigned i = 0; i < n; i++) {
        if (!std::isfinite(rs[i]->getCentreX()) || !std::isfinite(rs[i]->getCentreY())) { finite = false; break; }
        double mag = std::max(1.0, std::max(std::fabs(rs[i]->getMaxX()), std::fabs(rs[i]->getMaxY())));
        if (std::fabs(rs[i]->width() - W[i]) > 1e-9 * mag || std::fabs(rs[i]->height() - H[i]) > 1e-9 * mag) { res.violate("size-changed", JObj().i("node", i).num("width", rs[i]->width()).num("was", W[i]).raw("case", desc).done()); break; }
    }
    if (!finite) { res.violate("non-finite-coordinate", JObj().raw("case", desc).done()); return; }
    JArr fin; for (unsigned i = 0; i < n; i++) fin.raw(JArr().num(rs[i]->getCentreX()).num(rs[i]->getCentreY()).done());
    bool negGapSep = false; for (auto &c : specs) if (c.type == "separation" && !c.eq && c.gap < 0) negGapSep = true;
    if (!overlapMode) {
        for (auto &c : specs) {
            res.count(std::string("constraints_checked.") + c.type);
            if (excused.count(c.cc)) { res.count("constraints_excused_as_reported_unsatisfiable"); continue; }
            double v = evaluate(c, als, rs);
            res.maxi("max_violation_unexcused", v);
            // signature of F49: contradictory constraint set, the layout did report SOME constraint unsatisfiable, but not the one that ends up violated
            if (v > 1e-4 && lockedPair) { res.violate(std::string("violated-and-not-reported[makeFeasible,") + (satisfiable ? "satisfiable-set" : "contradictory-set") + ",two-overlapping-nodes-tied-in-both-dimensions]", JObj().num("violation", v).raw("constraint", cjson(c, als)).raw("reported_unsatisfiable", infoj.done()).raw("final_centres", fin.done()).raw("case", desc).done()); }
            else if (v > 1e-4) { res.violate((!satisfiable && !excused.empty()) ? std::string("violated-and-not-reported[contradictory-set,another-constraint-was-reported]") : (satisfiable && avoidOverlaps && !excused.empty()) ? std::string("violated-and-not-reported[satisfiable-user-constraints-with-overlap-avoidance,other-constraints-were-reported]") : std::string(c.type) + ":violated-and-not-reported[" + dn[driver] + (driver == 4 ? (satisfiable ? ",satisfiable-set" : ",contradictory-set") : "") + (driver != 4 && satisfiable && negGapSep ? ",set-has-a-negative-gap-separation" : "") + "]", JObj().num("violation", v).raw("constraint", cjson(c, als)).raw("reported_unsatisfiable", infoj.done()).raw("final_centres", fin.done()).raw("case", desc).done()); }
        }
        // page boundaries: every member lies between the margins the constraint reports after the layout
        // (not after makeFeasible() alone: the margins are only refreshed by the descent steps of run())
        for (auto &pg : pages) { if (excused.count(pg.cc) || driver == 4) continue;
            for (int d = 0; d < 2; d++) { double lo = pg.cc->getActualLeftMargin((vpsc::Dim)d), hi = pg.cc->getActualRightMargin((vpsc::Dim)d);
                for (auto v : pg.ids) { double c = d ? rs[v]->getCentreY() : rs[v]->getCentreX(), h = (d ? H[v] : W[v]) / 2; res.count("page_boundary_members_checked"); double out = std::max(lo + h - c, c + h - hi);
                    res.maxi("max_page_boundary_excess", out);
                    if (out > 1e-4) { res.violate(std::string("page-boundary:member-outside-the-actual-margins[") + dn[driver] + "]", JObj().i("node", v).i("dim", d).num("actual_low_margin", lo).num("actual_high_margin", hi).num("centre", c).num("half_extent", h).num("outside_by", out).raw("final_centres", fin.done()).raw("case", desc).done()); d = 2; break; } } } }
        if (satisfiable && !excused.empty()) res.count("satisfiable_cases_with_reports(observation)");
        return;
    }
    // ---- C08 oracle (judged only when nothing was reported unsatisfiable)
    if (!excused.empty()) { res.count("cases_with_reports(not judged)"); return; }
    for (unsigned i = 0; i < n; i++) for (unsigned j = i + 1; j < n; j++) {
        if (exemptPairs.count({i, j})) continue;
        double ox = std::min(rs[i]->getMaxX(), rs[j]->getMaxX()) - std::max(rs[i]->getMinX(), rs[j]->getMinX()), oy = std::min(rs[i]->getMaxY(), rs[j]->getMaxY()) - std::max(rs[i]->getMinY(), rs[j]->getMinY());
        res.count("pairs_checked"); res.maxi("max_remaining_overlap", std::min(ox, oy));
        if (ox > 1e-3 && oy > 1e-3) { res.violate(clusters ? "nodes-overlap[clusters]" : "nodes-overlap", JObj().i("i", i).i("j", j).num("overlap_x", ox).num("overlap_y", oy).raw("final_centres", fin.done()).raw("case", desc).done()); i = n; break; }
    }
    if (clusters) {
        // member bounding boxes (recursive), computed from node rectangles only
        std::vector<std::array<double, 4>> box(cls.size());
        std::function<void(int)> comp = [&](int c) { double x0 = 1e300, y0 = 1e300, x1 = -1e300, y1 = -1e300; for (auto v : cls[c].nodes) { x0 = std::min(x0, rs[v]->getMinX()); y0 = std::min(y0, rs[v]->getMinY()); x1 = std::max(x1, rs[v]->getMaxX()); y1 = std::max(y1, rs[v]->getMaxY()); } for (int ch : cls[c].children) { comp(ch); x0 = std::min(x0, box[ch][0]); y0 = std::min(y0, box[ch][1]); x1 = std::max(x1, box[ch][2]); y1 = std::max(y1, box[ch][3]); } box[c] = {x0, y0, x1, y1}; };
        for (size_t c = 0; c < cls.size(); c++) if (cls[c].parent < 0) comp((int)c);
        std::function<bool(int, unsigned)> member = [&](int c, unsigned v) { for (auto q : cls[c].nodes) if (q == v) return true; for (int ch : cls[c].children) if (member(ch, v)) return true; return false; };
        for (size_t x = 0; x < cls.size(); x++) for (size_t y = x + 1; y < cls.size(); y++) {
            if (cls[x].parent != cls[y].parent) continue;   // siblings only
            double ox = std::min(box[x][2], box[y][2]) - std::max(box[x][0], box[y][0]), oy = std::min(box[x][3], box[y][3]) - std::max(box[x][1], box[y][1]);
            res.count("sibling_cluster_pairs_checked");
            if (ox > 1e-3 && oy > 1e-3) res.violate("sibling-cluster-boxes-overlap", JObj().i("cluster_a", (long)x).i("cluster_b", (long)y).num("overlap_x", ox).num("overlap_y", oy).raw("final_centres", fin.done()).raw("case", desc).done());
        }
        for (size_t c = 0; c < cls.size(); c++) for (unsigned v = 0; v < n; v++) {
            if (member((int)c, v)) continue;
            double ox = std::min(box[c][2], rs[v]->getMaxX()) - std::max(box[c][0], rs[v]->getMinX()), oy = std::min(box[c][3], rs[v]->getMaxY()) - std::max(box[c][1], rs[v]->getMinY());
            res.count("node_vs_foreign_cluster_checked");
            if (ox > 1e-3 && oy > 1e-3) { res.violate("node-inside-foreign-cluster-box", JObj().i("cluster", (long)c).i("node", v).num("overlap_x", ox).num("overlap_y", oy).raw("final_centres", fin.done()).raw("case", desc).done()); break; }
        }
    }
}

int main(int argc, char **argv) {
    return harness_main(argc, argv, "c07_cola", [](const Args &a, long idx, bool wantDesc, CaseResult &res) {
        if (a.mode == "constraints") case_layout(a, idx, wantDesc, res, false);
        else if (a.mode == "overlap") case_layout(a, idx, wantDesc, res, true);
        else res.inconclusive = "unknown-mode";
    });
}
