// Common scaffolding for all /verif harnesses: CLI, PRNG, JSON lines, digests,
// per-case watchdog, exception attribution, optional per-case leak check.
// Protocol (see /verif/check): the harness appends JSON lines to --out:
//   {"t":"case",...}     for every case that is not plainly held, and for samples
//   {"t":"summary",...}  once at the end of the slice
// and keeps the index of the case in flight in <out>.progress so that the
// driver can attribute a crash / sanitizer abort / hang to one case.
#ifndef VERIF_COMMON_H
#define VERIF_COMMON_H
#include <cstddef>
#include <cstdint>
#include <cstdio>
#include <cstdlib>
#include <cstring>
#include <cmath>
#include <string>
#include <vector>
#include <map>
#include <set>
#include <random>
#include <sstream>
#include <stdexcept>
#include <algorithm>
#include <functional>
#include <unistd.h>
#include <fcntl.h>
#include <signal.h>
#include <sys/stat.h>
#include <execinfo.h>
#include "libvpsc/assertions.h"

#if defined(__SANITIZE_ADDRESS__)
extern "C" int __lsan_do_recoverable_leak_check(void);
#define VERIF_HAVE_LSAN 1
#endif

namespace vf {

// ---------------------------------------------------------------- PRNG
struct Rng {
    std::mt19937_64 g;
    explicit Rng(uint64_t s) : g(s) {}
    uint64_t u64() { return g(); }
    // uniform integer in [lo,hi]
    long ri(long lo, long hi) {
        if (hi <= lo) return lo;
        return lo + (long)(g() % (uint64_t)(hi - lo + 1));
    }
    double rd() { return (g() >> 11) * (1.0 / 9007199254740992.0); }
    double rd(double lo, double hi) { return lo + (hi - lo) * rd(); }
    bool coin(double p = 0.5) { return rd() < p; }
    template <class T> const T &pick(const std::vector<T> &v) { return v[ri(0, (long)v.size() - 1)]; }
    template <class T> void shuffle(std::vector<T> &v) {
        for (size_t i = v.size(); i > 1; --i) std::swap(v[i - 1], v[ri(0, (long)i - 1)]);
    }
};
inline uint64_t mix(uint64_t a, uint64_t b) {
    uint64_t x = a * 0x9E3779B97F4A7C15ULL ^ (b + 0xBF58476D1CE4E5B9ULL + (a << 6) + (a >> 2));
    x ^= x >> 30; x *= 0xBF58476D1CE4E5B9ULL; x ^= x >> 27; x *= 0x94D049BB133111EBULL; x ^= x >> 31;
    return x;
}

// ---------------------------------------------------------------- JSON
inline std::string jstr(const std::string &s) {
    std::string o = "\"";
    for (unsigned char c : s) {
        if (c == '"' || c == '\\') { o += '\\'; o += (char)c; }
        else if (c == '\n') o += "\\n";
        else if (c == '\t') o += "\\t";
        else if (c < 0x20) { char b[8]; snprintf(b, sizeof b, "\\u%04x", c); o += b; }
        else o += (char)c;
    }
    return o + "\"";
}
inline std::string jnum(double d) {
    if (std::isnan(d)) return "\"nan\"";
    if (std::isinf(d)) return d > 0 ? "\"inf\"" : "\"-inf\"";
    char b[40];
    if (d == std::floor(d) && std::fabs(d) < 1e15) snprintf(b, sizeof b, "%.0f", d);
    else snprintf(b, sizeof b, "%.17g", d);
    return b;
}
inline std::string jint(long long v) { return std::to_string(v); }
struct JObj {
    std::string s; bool first = true;
    JObj &raw(const std::string &k, const std::string &v) {
        s += first ? "{" : ","; first = false; s += jstr(k); s += ":"; s += v; return *this;
    }
    JObj &str(const std::string &k, const std::string &v) { return raw(k, jstr(v)); }
    JObj &num(const std::string &k, double v) { return raw(k, jnum(v)); }
    JObj &i(const std::string &k, long long v) { return raw(k, jint(v)); }
    JObj &b(const std::string &k, bool v) { return raw(k, v ? "true" : "false"); }
    std::string done() const { return first ? "{}" : s + "}"; }
};
struct JArr {
    std::string s; bool first = true;
    JArr &raw(const std::string &v) { s += first ? "[" : ","; first = false; s += v; return *this; }
    JArr &num(double v) { return raw(jnum(v)); }
    JArr &i(long long v) { return raw(jint(v)); }
    JArr &str(const std::string &v) { return raw(jstr(v)); }
    std::string done() const { return first ? "[]" : s + "]"; }
};
template <class T> std::string jnums(const std::vector<T> &v) { JArr a; for (auto &x : v) a.num((double)x); return a.done(); }

// ---------------------------------------------------------------- digest
struct Digest {
    uint64_t h = 1469598103934665603ULL;
    void bytes(const void *p, size_t n) { const unsigned char *c = (const unsigned char *)p; for (size_t i = 0; i < n; i++) { h ^= c[i]; h *= 1099511628211ULL; } }
    void d(double x) { if (x == 0) x = 0; bytes(&x, sizeof x); }
    void i(long long x) { bytes(&x, sizeof x); }
    void s(const std::string &x) { bytes(x.data(), x.size()); i((long long)x.size()); }
};

// ---------------------------------------------------------------- results
struct Finding { std::string key; std::string witness; };  // witness: JSON value
struct CaseResult {
    std::string gen;                    // generator / sub-workload
    std::string inconclusive;           // non-empty => reason (if no finding)
    std::vector<Finding> findings;      // violations of the property under check
    std::vector<Finding> c15;           // assertion/exception findings (property C15)
    bool nontrivial = false;
    uint64_t digest = 0;
    std::string desc;                   // JSON value: the expanded case (filled if wantDesc or on violation)
    std::map<std::string, long> obs;    // observation counters (summed over the slice)
    std::map<std::string, double> obsmax; // observation maxima
    void violate(const std::string &key, const std::string &witnessJson) { findings.push_back({key, witnessJson}); }
    void count(const std::string &k, long n = 1) { obs[k] += n; }
    void maxi(const std::string &k, double v) { auto it = obsmax.find(k); if (it == obsmax.end() || it->second < v) obsmax[k] = v; }
};

struct Args {
    uint64_t seed = 1;
    long from = 0, to = 0;
    std::string out, mode = "default", tier = "quick";
    int watchdog = 60;       // seconds per case
    long sampleEvery = 0;    // emit a full case line every k-th case (0: first 3 of a slice only)
    bool leakcheck = false;
    bool descAll = false;    // replay: always produce desc + print
    std::map<std::string, std::string> params;
    long pl(const std::string &k, long d) const { auto it = params.find(k); return it == params.end() ? d : atol(it->second.c_str()); }
    double pd(const std::string &k, double d) const { auto it = params.find(k); return it == params.end() ? d : atof(it->second.c_str()); }
};

// global stage marker, shown in hang / crash reports ("which call was in flight")
static const char *volatile g_stage = "";
static volatile long g_progress = 0;     // logical progress counter (harness may bump it)
static int g_outfd = -1, g_progfd = -1;
static long g_curcase = -1;
static const char *g_harness = "";

inline void set_stage(const char *s) { g_stage = s; }

static volatile long g_cnt[6] = {0, 0, 0, 0, 0, 0};   // evaluations, held, violated, inconclusive, nontrivial, c15 (for the partial summary on abnormal exit)
static void write_all(int fd, const char *p, size_t n) { while (n) { ssize_t k = ::write(fd, p, n); if (k <= 0) return; p += k; n -= (size_t)k; } }

static void on_alarm(int) {
    char b[500];
    int n = snprintf(b, sizeof b, "{\"t\":\"summary\",\"partial\":true,\"evaluations\":%ld,\"held\":%ld,\"violated\":%ld,\"inconclusive\":%ld,\"nontrivial\":%ld,\"c15\":%ld}\n{\"t\":\"hang\",\"case\":%ld,\"stage\":\"%s\",\"progress\":%ld}\n", g_cnt[0], g_cnt[1], g_cnt[2], g_cnt[3], g_cnt[4], g_cnt[5], g_curcase, (const char *)g_stage, (long)g_progress);
    if (g_outfd >= 0) write_all(g_outfd, b, (size_t)n);
    _exit(3);
}
static void on_fatal(int sig) {
    char b[500];
    int n = snprintf(b, sizeof b, "{\"t\":\"summary\",\"partial\":true,\"evaluations\":%ld,\"held\":%ld,\"violated\":%ld,\"inconclusive\":%ld,\"nontrivial\":%ld,\"c15\":%ld}\n{\"t\":\"crash\",\"case\":%ld,\"stage\":\"%s\",\"signal\":%d}\n", g_cnt[0], g_cnt[1], g_cnt[2], g_cnt[3], g_cnt[4], g_cnt[5], g_curcase, (const char *)g_stage, sig);
    if (g_outfd >= 0) write_all(g_outfd, b, (size_t)n);
    {   // raw return addresses of the faulting stack (the driver symbolises them; the binary is linked -no-pie)
        void *bt[40]; int k = backtrace(bt, 40); char line[1200]; int m = snprintf(line, sizeof line, "{\"t\":\"backtrace\",\"case\":%ld,\"signal\":%d,\"addrs\":[", g_curcase, sig);
        for (int i = 0; i < k && m < 1100; i++) m += snprintf(line + m, sizeof line - (size_t)m, "%s\"%p\"", i ? "," : "", bt[i]);
        m += snprintf(line + m, sizeof line - (size_t)m, "]}\n");
        if (g_outfd >= 0) write_all(g_outfd, line, (size_t)m);
    }
    signal(sig, SIG_DFL);
    raise(sig);
}

typedef std::function<void(const Args &, long idx, bool wantDesc, CaseResult &)> CaseFn;

inline std::string short_what(const char *w) {
    std::string s(w ? w : "");
    if (s.size() > 160) s.resize(160);
    return s;
}

// "leak:<f1>><f2>" from a LeakSanitizer report: the two innermost library frames of the first direct leak (same format as the driver uses
// for reports at process exit)
inline std::string leak_key(const std::string &rep) {
    std::istringstream in(rep); std::string line; bool inBlock = false, direct = false, haveDirect = rep.find("Direct leak of") != std::string::npos; std::vector<std::string> frames;
    auto clean = [](std::string f) { size_t p = f.find('('); if (p != std::string::npos) f = f.substr(0, p); for (;;) { size_t a = f.rfind('<'); if (a == std::string::npos) break; size_t b = f.find('>', a); if (b == std::string::npos) break; f.erase(a, b - a + 1); } while (!f.empty() && f.back() == ' ') f.pop_back(); if (f.size() > 70) f = f.substr(f.size() - 70); return f; };
    while (std::getline(in, line)) {
        if (line.find("leak of") != std::string::npos) { if (inBlock && !frames.empty()) break; inBlock = true; direct = line.find("Direct") != std::string::npos; frames.clear(); continue; }
        if (!inBlock || (haveDirect && !direct)) continue;
        size_t h = line.find('#'), in_ = line.find(" in "); if (h == std::string::npos || in_ == std::string::npos) { if (line.find_first_not_of(" \t\r") == std::string::npos && !frames.empty()) break; continue; }
        std::string rest = line.substr(in_ + 4); size_t sp = rest.rfind(' '); if (sp == std::string::npos) continue; std::string fn = rest.substr(0, sp), loc = rest.substr(sp + 1);
        if (loc.find("/cola/") != std::string::npos && loc.find("/verif/") == std::string::npos && frames.size() < 2) frames.push_back(clean(fn));
    }
    if (frames.empty()) {
        // the directly leaked object was allocated by the caller (e.g. a pin handed to its shape): use the first block that has library frames
        std::istringstream in2(rep); bool blk = false;
        while (std::getline(in2, line)) {
            if (line.find("leak of") != std::string::npos) { if (!frames.empty()) break; blk = true; continue; }
            if (!blk) continue;
            size_t h = line.find('#'), in_ = line.find(" in "); if (h == std::string::npos || in_ == std::string::npos) continue;
            std::string rest = line.substr(in_ + 4); size_t sp = rest.rfind(' '); if (sp == std::string::npos) continue; std::string fn = rest.substr(0, sp), loc = rest.substr(sp + 1);
            if (loc.find("/cola/") != std::string::npos && loc.find("/verif/") == std::string::npos && frames.size() < 2) frames.push_back(clean(fn));
        }
        if (frames.empty()) return "leak:harness-or-unknown";
        return "leak:(held-by)" + frames[0] + (frames.size() > 1 ? ">" + frames[1] : "");
    }
    return "leak:" + frames[0] + (frames.size() > 1 ? ">" + frames[1] : "");
}

// "assert:<file basename>:<expression>" from CriticalFailure::what() (line numbers
// are left out of the key on purpose: they move when unrelated code is edited)
inline std::string assert_key(const std::string &w) {
    std::string expr, file;
    size_t p = w.find("expression: ");
    if (p != std::string::npos) { size_t e = w.find('\n', p); expr = w.substr(p + 12, e == std::string::npos ? e : e - p - 12); }
    p = w.find(" of ");
    if (p != std::string::npos) { size_t e = w.find('\n', p); file = w.substr(p + 4, e == std::string::npos ? e : e - p - 4); }
    size_t sl = file.rfind('/');
    if (sl != std::string::npos) file = file.substr(sl + 1);
    if (expr.size() > 100) expr.resize(100);
    return "assert:" + file + ":" + expr;
}

inline int harness_main(int argc, char **argv, const char *name, CaseFn fn) {
    Args a;
    g_harness = name;
    for (int i = 1; i < argc; i++) {
        std::string k = argv[i];
        auto next = [&]() -> std::string { if (i + 1 >= argc) { fprintf(stderr, "missing value for %s\n", k.c_str()); exit(2); } return argv[++i]; };
        if (k == "--seed") a.seed = strtoull(next().c_str(), 0, 10);
        else if (k == "--from") a.from = atol(next().c_str());
        else if (k == "--to") a.to = atol(next().c_str());
        else if (k == "--out") a.out = next();
        else if (k == "--mode") a.mode = next();
        else if (k == "--tier") a.tier = next();
        else if (k == "--watchdog") a.watchdog = atoi(next().c_str());
        else if (k == "--sample-every") a.sampleEvery = atol(next().c_str());
        else if (k == "--leakcheck") a.leakcheck = true;
        else if (k == "--desc-all") a.descAll = true;
        else if (k == "--param") { std::string kv = next(); size_t e = kv.find('='); if (e != std::string::npos) a.params[kv.substr(0, e)] = kv.substr(e + 1); }
        else { fprintf(stderr, "unknown arg %s\n", k.c_str()); return 2; }
    }
    if (a.out.empty()) { fprintf(stderr, "--out required\n"); return 2; }
    g_outfd = open(a.out.c_str(), O_WRONLY | O_CREAT | O_APPEND, 0644);
    g_progfd = open((a.out + ".progress").c_str(), O_WRONLY | O_CREAT | O_TRUNC, 0644);
    FILE *dig = fopen((a.out + ".dig").c_str(), "ab");
    if (g_outfd < 0 || g_progfd < 0 || !dig) { fprintf(stderr, "cannot open out files\n"); return 2; }
    signal(SIGALRM, on_alarm);
#if !defined(__SANITIZE_ADDRESS__)
    signal(SIGSEGV, on_fatal); signal(SIGBUS, on_fatal); signal(SIGFPE, on_fatal); signal(SIGILL, on_fatal);
#endif
    signal(SIGABRT, on_fatal);

    long evaluations = 0, held = 0, violated = 0, inconclusive = 0, nontrivial = 0, c15n = 0;
    bool leakRestart = false; long endedAt = a.to;
    std::map<std::string, long> obs, gens, gensNt, incReasons, vioKeys;
    std::map<std::string, double> obsmax;
    long emitted = 0; long segFrom = a.from;
    // full summaries are flushed every 256 cases (and the counters reset) so that a later crash of this process loses at most the
    // observation counters of the current segment; the driver adds all summaries up
    auto writeSummary = [&](long from, long to, bool partial) {
        JObj s;
        s.str("t", "summary").str("mode", a.mode).i("from", from).i("to", to).b("partial", partial).i("evaluations", evaluations).i("held", held)
            .i("violated", violated).i("inconclusive", inconclusive).i("nontrivial", nontrivial).i("c15", c15n);
        auto dump = [](const std::map<std::string, long> &m) { JObj o; for (auto &kv : m) o.i(kv.first, kv.second); return o.done(); };
        s.raw("obs", dump(obs)).raw("gens", dump(gens)).raw("gens_nt", dump(gensNt)).raw("inconclusive_reasons", dump(incReasons)).raw("violation_keys", dump(vioKeys));
        { JObj o; for (auto &kv : obsmax) o.num(kv.first, kv.second); s.raw("obsmax", o.done()); }
        std::string line = s.done() + "\n";
        write_all(g_outfd, line.data(), line.size());
    };
    for (long idx = a.from; idx < a.to; idx++) {
        g_curcase = idx;
        { char b[32]; int n = snprintf(b, sizeof b, "%-20ld\n", idx); if (pwrite(g_progfd, b, (size_t)n, 0) < 0) {} }
        CaseResult r;
        bool wantDesc = a.descAll || (a.sampleEvery > 0 ? (idx % a.sampleEvery == 0) : (idx - a.from < 2));
        set_stage("case");
        alarm((unsigned)a.watchdog);
        try {
            fn(a, idx, wantDesc, r);
        }
#ifndef NDEBUG
        catch (vpsc::CriticalFailure &e) {
            r.c15.push_back({assert_key(e.what()), JObj().str("what", e.what()).str("stage", (const char *)g_stage).done()});
            if (r.inconclusive.empty()) r.inconclusive = "library-assertion";
        }
#endif
        catch (std::bad_alloc &) {
            r.inconclusive = "bad_alloc";
        } catch (std::exception &e) {
            r.c15.push_back({std::string("exception:") + short_what(e.what()), JObj().str("what", e.what()).str("stage", (const char *)g_stage).done()});
            if (r.inconclusive.empty()) r.inconclusive = "library-exception";
        } catch (const char *) {
            // libvpsc's IncSolver::satisfy throws (char*) of a destroyed temporary: the text must not be read
            r.c15.push_back({"exception:char*", JObj().str("what", "char* exception (text not readable: it points into a destroyed temporary)").str("stage", (const char *)g_stage).done()});
            if (r.inconclusive.empty()) r.inconclusive = "library-exception";
        }
        alarm(0);
#ifdef VERIF_HAVE_LSAN
        if (a.leakcheck) {
            set_stage("leakcheck");
            // the report is captured in-process so that every leaking case carries its own allocation stack as signature
            fflush(stderr); int saved = dup(2); char tmpl[] = "/dev/shm/verif-lsan-XXXXXX"; int fd = mkstemp(tmpl); if (fd >= 0) { unlink(tmpl); dup2(fd, 2); }
            int leaked = __lsan_do_recoverable_leak_check();
            fflush(stderr); dup2(saved, 2); close(saved);
            if (leaked) {
                leakRestart = true;   // LeakSanitizer repeats every earlier leak in each later report: this process ends after the case, the driver restarts behind it
                std::string rep; if (fd >= 0) { lseek(fd, 0, SEEK_SET); char buf[4096]; ssize_t k; while ((k = read(fd, buf, sizeof buf)) > 0) rep.append(buf, (size_t)k); }
                fputs(rep.c_str(), stderr);
                // a router/solver/layout an exception unwound through was abandoned on purpose (its state is undefined): what it held is not a leak finding
                if (r.c15.empty()) r.c15.push_back({leak_key(rep), JObj().str("report", rep.substr(0, 3000)).done()});
            }
            if (fd >= 0) close(fd);
            // whatever an exception left behind may still be referenced from dead stack slots and only show up as leaked one case later:
            // never let a later case inherit it
            if (!r.c15.empty()) leakRestart = true;
        }
#endif
        evaluations++;
        if (r.gen.empty()) r.gen = a.mode;
        gens[r.gen]++;
        for (auto &kv : r.obs) obs[kv.first] += kv.second;
        for (auto &kv : r.obsmax) { auto it = obsmax.find(kv.first); if (it == obsmax.end() || it->second < kv.second) obsmax[kv.first] = kv.second; }
        std::string verdict;
        if (!r.findings.empty()) { verdict = "violated"; violated++; for (auto &f : r.findings) vioKeys[f.key]++; }
        else if (!r.inconclusive.empty()) { verdict = "inconclusive"; inconclusive++; incReasons[r.inconclusive]++; }
        else { verdict = "held"; held++; }
        if (!r.c15.empty()) c15n++;
        g_cnt[0] = evaluations; g_cnt[1] = held; g_cnt[2] = violated; g_cnt[3] = inconclusive; g_cnt[5] = c15n;
        if (r.nontrivial && verdict != "inconclusive") {
            nontrivial++; gensNt[r.gen]++; g_cnt[4] = nontrivial;
            fwrite(&r.digest, sizeof r.digest, 1, dig);
        }
        bool emit = verdict != "held" || !r.c15.empty() || wantDesc;
        if (emit && (verdict == "violated" || !r.c15.empty() || emitted < 400)) {
            if (r.desc.empty() && !wantDesc) {
                // regenerate with description for the record
                CaseResult r2;
                try { alarm((unsigned)a.watchdog); fn(a, idx, true, r2); } catch (...) { }
                alarm(0); r.desc = r2.desc;
            }
            JObj o;
            o.str("t", "case").i("case", idx).str("mode", a.mode).str("gen", r.gen).str("verdict", verdict)
                .b("nt", r.nontrivial);
            { char b[24]; snprintf(b, sizeof b, "%016llx", (unsigned long long)r.digest); o.str("digest", b); }
            if (!r.inconclusive.empty()) o.str("reason", r.inconclusive);
            if (!r.findings.empty()) { JArr fa; for (auto &f : r.findings) fa.raw(JObj().str("key", f.key).raw("witness", f.witness.empty() ? "null" : f.witness).done()); o.raw("findings", fa.done()); }
            if (!r.c15.empty()) { JArr fa; for (auto &f : r.c15) fa.raw(JObj().str("key", f.key).raw("witness", f.witness.empty() ? "null" : f.witness).done()); o.raw("c15", fa.done()); }
            if (!r.desc.empty()) o.raw("desc", r.desc);
            std::string line = o.done() + "\n";
            write_all(g_outfd, line.data(), line.size());
            emitted++;
        }
        if (leakRestart) { endedAt = idx + 1; break; }
        if ((idx - a.from + 1) % 256 == 0 && idx + 1 < a.to) {
            g_curcase = -1; fflush(dig); writeSummary(segFrom, idx + 1, true); segFrom = idx + 1;
            evaluations = held = violated = inconclusive = nontrivial = c15n = 0; obs.clear(); gens.clear(); gensNt.clear(); incReasons.clear(); vioKeys.clear(); obsmax.clear();
            for (int q = 0; q < 6; q++) g_cnt[q] = 0;
        }
    }
    g_curcase = -1;
    fclose(dig);
    writeSummary(segFrom, leakRestart ? endedAt : a.to, leakRestart);
    close(g_outfd);
    close(g_progfd);
    if (leakRestart) { fflush(nullptr); _exit(25); }   // skip the end-of-process leak check: it would repeat the report
    return 0;
}

// Assertion key helper: "file:line" taken from CriticalFailure::what()
} // namespace vf
#endif
