// C12: hyperedges stay spanning trees over the same terminals -- through full rerouting, improvement (moving / adding / deleting
// junctions) and further transactions.  Everything is rebuilt from public router state after each transaction.
#include "avoid_scene.h"

using namespace av;

struct HE { std::vector<int> terms; };   // terminal shape indices (each shape has one centre pin, class 1)

static void case_hyper(const Args &a, long idx, bool wantDesc, CaseResult &res) {
    Rng R(mix(mix(a.seed, 0xC12), (uint64_t)idx));
    int mode = (int)R.ri(0, 3);   // 0 improve moving+adding+deleting, 1 improve moving only, 2 full reroute registered by junction, 3 full reroute registered by terminal list
    static const char *mn[] = {"improve-add-delete", "improve-move", "reroute-by-junction", "reroute-by-terminals"};
    double pen = std::vector<double>{10, 50}[R.ri(0, 1)];
    Avoid::Router *router = new Avoid::Router(Avoid::OrthogonalRouting);
    struct Guard { Avoid::Router *&r; ~Guard() { if (!std::uncaught_exception()) delete r; } } guard{router};
    router->setRoutingParameter(Avoid::segmentPenalty, pen);
    router->setRoutingParameter(Avoid::idealNudgingDistance, std::vector<double>{1, 4, 10}[R.ri(0, 2)]);
    router->setRoutingOption(Avoid::improveHyperedgeRoutesMovingAddingAndDeletingJunctions, mode == 0);
    router->setRoutingOption(Avoid::improveHyperedgeRoutesMovingJunctions, mode <= 1);
    JArr hist; Digest D; D.i(mode); D.d(pen);
    // obstacle field
    struct LS { ll x0, y0, x1, y1; Avoid::ShapeRef *ref; };
    std::vector<LS> shapes;
    int ns = (int)R.ri(3, 10), tries = 0;
    while ((int)shapes.size() < ns && tries++ < 300) {
        ll w = R.ri(8, 30), h = R.ri(8, 30), cx = R.ri(40, 460), cy = R.ri(40, 460); LS s{cx - w, cy - h, cx + w, cy + h, nullptr};
        bool ok = true; for (auto &q : shapes) if (!(s.x1 + 25 < q.x0 || q.x1 + 25 < s.x0 || s.y1 + 25 < q.y0 || q.y1 + 25 < s.y0)) ok = false;
        if (!ok) continue;
        Avoid::Rectangle rect(Avoid::Point((double)s.x0, (double)s.y0), Avoid::Point((double)s.x1, (double)s.y1)); s.ref = new Avoid::ShapeRef(router, rect);
        new Avoid::ShapeConnectionPin(s.ref, 1, Avoid::ATTACH_POS_CENTRE, Avoid::ATTACH_POS_CENTRE, true, 0.0, Avoid::ConnDirNone);
        shapes.push_back(s); hist.raw(JObj().str("op", "addShape").raw("rect", JArr().i(s.x0).i(s.y0).i(s.x1).i(s.y1).done()).done()); D.i(s.x0); D.i(s.y0); D.i(s.x1); D.i(s.y1);
    }
    if (shapes.size() < 3) { res.inconclusive = "too-few-shapes"; return; }
    auto freePt = [&](Avoid::Point &p) { for (int t = 0; t < 300; t++) { ll x = R.ri(5, 495), y = R.ri(5, 495); bool in = false; for (auto &r : shapes) if (x >= r.x0 - 6 && x <= r.x1 + 6 && y >= r.y0 - 6 && y <= r.y1 + 6) in = true; if (!in) { p = Avoid::Point((double)x, (double)y); return true; } } return false; };
    // one hyperedge (sometimes two on disjoint terminal sets)
    std::vector<HE> hes; std::vector<int> idxs; for (size_t i = 0; i < shapes.size(); i++) idxs.push_back((int)i); R.shuffle(idxs);
    int nhe = shapes.size() >= 7 && R.coin(mode >= 2 ? 0.12 : 0.3) ? 2 : 1; size_t pos = 0;
    std::vector<Avoid::JunctionRef *> firstJunction;
    for (int h = 0; h < nhe; h++) {
        int k = (int)R.ri(3, std::max(3, (int)std::min<size_t>(6, (shapes.size() - pos) / (size_t)(nhe - h))));
        if (pos + (size_t)k > shapes.size()) break;
        HE he; for (int t = 0; t < k; t++) he.terms.push_back(idxs[pos++]);
        JArr tj; for (int t : he.terms) { tj.i(t); D.i(t); }
        if (mode == 3) {
            Avoid::ConnEndList terminals; for (int t : he.terms) terminals.push_back(Avoid::ConnEnd(shapes[t].ref, 1));
            router->hyperedgeRerouter()->registerHyperedgeForRerouting(terminals);
            hist.raw(JObj().str("op", "registerHyperedgeForRerouting(terminals)").raw("terminal_shapes", tj.done()).done());
            firstJunction.push_back(nullptr);
        } else {
            // initial tree: 1-2 junctions placed at random in free space
            Avoid::Point p1, p2; if (!freePt(p1)) { res.inconclusive = "no-free-point"; return; }
            Avoid::JunctionRef *j1 = new Avoid::JunctionRef(router, p1), *j2 = nullptr; JArr jj; jj.raw(JArr().num(p1.x).num(p1.y).done()); D.d(p1.x); D.d(p1.y);
            if (k >= 4 && R.coin(0.5) && freePt(p2)) { j2 = new Avoid::JunctionRef(router, p2); Avoid::ConnRef *c = new Avoid::ConnRef(router, Avoid::ConnEnd(j1), Avoid::ConnEnd(j2)); c->setRoutingType(Avoid::ConnType_Orthogonal); jj.raw(JArr().num(p2.x).num(p2.y).done()); D.d(p2.x); D.d(p2.y); }
            for (int t = 0; t < k; t++) { Avoid::JunctionRef *j = (j2 && t % 2) ? j2 : j1; Avoid::ConnRef *c = new Avoid::ConnRef(router, Avoid::ConnEnd(shapes[he.terms[t]].ref, 1), Avoid::ConnEnd(j)); c->setRoutingType(Avoid::ConnType_Orthogonal); }
            if (mode == 2) router->hyperedgeRerouter()->registerHyperedgeForRerouting(j1);
            hist.raw(JObj().str("op", "addHyperedge").raw("terminal_shapes", tj.done()).raw("junctions_at", jj.done()).b("registered_for_full_rerouting", mode == 2).done());
            firstJunction.push_back(j1);
        }
        hes.push_back(he);
    }
    if (hes.empty()) { res.inconclusive = "no-hyperedge"; return; }
    res.gen = mn[mode];

    std::set<Avoid::ConnRef *> liveBefore; std::set<Avoid::JunctionRef *> liveJBefore;
    std::set<Avoid::ConnRef *> deadC; std::set<Avoid::JunctionRef *> deadJ;   // reported deleted so far: the router frees them "at its convenience", until then they linger in its lists
    size_t junctionsInitially = 0; for (auto j : firstJunction) if (j) junctionsInitially++;
    bool topologyChanged = false;

    auto monitor = [&](int txn, bool checkLists) {
        std::set<Avoid::ConnRef *> liveC(router->connRefs.begin(), router->connRefs.end()); std::set<Avoid::JunctionRef *> liveJ;
        for (auto o : router->m_obstacles) { Avoid::JunctionRef *j = dynamic_cast<Avoid::JunctionRef *>(o); if (j) liveJ.insert(j); }
        auto wit = [&](const std::string &what) { return JObj().str("what", what).i("transaction", txn).str("mode", mn[mode]).raw("history", hist.done()).done(); };
        // ---- object lists
        if (checkLists) {
            std::vector<Avoid::HyperedgeNewAndDeletedObjectLists> pre;
            if (mode >= 2) for (size_t h = 0; h < hes.size(); h++) pre.push_back(router->hyperedgeRerouter()->newAndDeletedObjectLists(h)); else pre.push_back(router->newAndDeletedObjectListsFromHyperedgeImprovement());
            std::set<Avoid::ConnRef *> allNewC; std::set<Avoid::JunctionRef *> allNewJ; for (auto &nd : pre) { for (auto c : nd.newConnectorList) allNewC.insert(c); for (auto j : nd.newJunctionList) allNewJ.insert(j); }
            bool aliased = false;
            // objects reported deleted in EARLIER transactions have been freed by now; an equal address seen again is a new object
            deadC.clear(); deadJ.clear();
            for (size_t h = 0; h < pre.size(); h++) {
                std::set<Avoid::ConnRef *> ownNew(pre[h].newConnectorList.begin(), pre[h].newConnectorList.end());
                for (auto c : pre[h].deletedConnectorList) { if (allNewC.count(c) && !ownNew.count(c)) { aliased = true; continue; } deadC.insert(c); }
                std::set<Avoid::JunctionRef *> ownNewJ(pre[h].newJunctionList.begin(), pre[h].newJunctionList.end());
                for (auto j : pre[h].deletedJunctionList) { if (allNewJ.count(j) && !ownNewJ.count(j)) { aliased = true; continue; } deadJ.insert(j); }
            }
            // F43: with two hyperedges rerouted in one transaction the first one's deleted objects are already freed when the second one's new
            // objects are allocated, so the reported "deleted" pointers can alias live new objects
            if (aliased) res.violate("lists:deleted-pointer-aliases-a-new-object-of-another-hyperedge", wit("an object reported deleted for one hyperedge is identical (same address) to an object reported new for another"));
        }
        for (auto c : deadC) liveC.erase(c);
        for (auto j : deadJ) liveJ.erase(j);
        if (checkLists) {
            std::vector<Avoid::HyperedgeNewAndDeletedObjectLists> lists;
            if (mode >= 2) for (size_t h = 0; h < hes.size(); h++) lists.push_back(router->hyperedgeRerouter()->newAndDeletedObjectLists(h)); else lists.push_back(router->newAndDeletedObjectListsFromHyperedgeImprovement());
            for (auto &nd : lists) {
                if (!nd.newJunctionList.empty() || !nd.deletedJunctionList.empty() || !nd.newConnectorList.empty() || !nd.deletedConnectorList.empty()) { topologyChanged = true; res.count("transactions_changing_topology"); }
                std::set<Avoid::ConnRef *> nc(nd.newConnectorList.begin(), nd.newConnectorList.end()), dc(nd.deletedConnectorList.begin(), nd.deletedConnectorList.end());
                std::set<Avoid::JunctionRef *> nj(nd.newJunctionList.begin(), nd.newJunctionList.end()), dj(nd.deletedJunctionList.begin(), nd.deletedJunctionList.end());
                res.count("new_connectors_reported", (long)nc.size()); res.count("deleted_connectors_reported", (long)dc.size()); res.count("new_junctions_reported", (long)nj.size()); res.count("deleted_junctions_reported", (long)dj.size());
                // an object created and removed again within one improvement pass is reported in both lists (observed on the unchanged
                // tree, DESIGN.md F13): counted, and treated as deleted
                for (auto c : nc) if (dc.count(c)) res.count("transient_connectors_in_both_lists(observation)");
                for (auto j : nj) if (dj.count(j)) res.count("transient_junctions_in_both_lists(observation)");
                std::set<Avoid::ConnRef *> allC(router->connRefs.begin(), router->connRefs.end());
                for (auto c : nc) if (!dc.count(c) && !allC.count(c)) res.violate("lists:new-connector-not-live", wit("a connector reported new (and not deleted) is not in Router::connRefs"));
                for (auto j : nj) if (!dj.count(j) && !liveJ.count(j)) res.violate("lists:new-junction-not-live", wit("a junction reported new (and not deleted) is not among the router's obstacles"));
                // a deleted junction may linger in m_obstacles (freed at the router's convenience) but must have no live connector attached: checked below via ends
                if (txn > 0 || mode < 2 || true) { for (auto c : liveC) if (!liveBefore.empty() && !liveBefore.count(c) && !nc.count(c)) { bool inAny = false; for (auto &o : lists) for (auto q : o.newConnectorList) if (q == c) inAny = true; if (!inAny) res.violate("lists:live-connector-neither-old-nor-reported-new", wit("a live connector was neither live before the transaction nor reported as new")); } }
                for (auto c : liveC) { auto ends = c->endpointConnEnds(); for (Avoid::ConnEnd *e : {&ends.first, &ends.second}) if (e->type() == Avoid::ConnEndJunction && dj.count(e->junction())) res.violate("lists:live-connector-attached-to-deleted-junction", wit("a live connector is attached to a junction reported deleted")); }
            }
        }
        // ---- rebuild the graph of each hyperedge from the live connectors.
        // Nodes: live junctions and terminal shapes.  A connector end is resolved through its typed ConnEnd when that is a junction or a
        // shape pin; full rerouting from a terminal list leaves terminal ends untyped (ConnEndEmpty, finding F41), those are resolved
        // geometrically (the shape whose closed rectangle holds the route end).  A junction that the rerouter placed inside a terminal
        // shape (finding F42) is identified with that terminal.
        bool fullReroute = mode >= 2;
        std::map<Avoid::ShapeRef *, int> shapeIndex; for (size_t i = 0; i < shapes.size(); i++) shapeIndex[shapes[i].ref] = (int)i;
        auto shapeAt = [&](const Avoid::Point &p) { for (size_t i = 0; i < shapes.size(); i++) if (p.x >= shapes[i].x0 - 1e-6 && p.x <= shapes[i].x1 + 1e-6 && p.y >= shapes[i].y0 - 1e-6 && p.y <= shapes[i].y1 + 1e-6) return (int)i; return -1; };
        std::set<int> allTerms; for (auto &he : hes) for (int t : he.terms) allTerms.insert(t);
        int V = 0; std::map<Avoid::JunctionRef *, int> jnode; std::map<int, int> tnode;   // node ids
        auto termNode = [&](int si) { auto it = tnode.find(si); if (it != tnode.end()) return it->second; return tnode[si] = V++; };
        auto juncNode = [&](Avoid::JunctionRef *j) {
            auto it = jnode.find(j); if (it != jnode.end()) return it->second;
            if (fullReroute) { Avoid::Point p = j->position(); int si = shapeAt(p); if (si >= 0 && allTerms.count(si)) { res.count("junction_placed_inside_terminal_shape(F42)"); return jnode[j] = termNode(si); } }
            return jnode[j] = V++;
        };
        std::vector<std::pair<int, int>> E; bool endsOk = true; std::string endsWhy; std::set<int> coveredTerms; std::map<int, int> deg;
        for (auto c : liveC) {
            auto ends = c->endpointConnEnds(); Avoid::ConnEnd *ee[2] = {&ends.first, &ends.second}; int v[2]; int endShape[2] = {-1, -1};
            const Avoid::PolyLine &r = c->displayRoute();
            for (int q = 0; q < 2; q++) {
                if (ee[q]->type() == Avoid::ConnEndJunction) { if (!liveJ.count(ee[q]->junction())) { endsOk = false; endsWhy = "connector end refers to a junction that is not live"; } v[q] = juncNode(ee[q]->junction()); }
                else if (ee[q]->type() == Avoid::ConnEndShapePin) { int si = shapeIndex.count(ee[q]->shape()) ? shapeIndex[ee[q]->shape()] : -1; endShape[q] = si; coveredTerms.insert(si); v[q] = termNode(si); if (ee[q]->pinClassId() != 1) { endsOk = false; endsWhy = "terminal end lost its pin class"; } }
                else if (fullReroute && mode == 3 && r.size() >= 1) { Avoid::Point p = q ? r.ps[r.size() - 1] : r.ps[0]; int si = shapeAt(p); res.count("untyped_terminal_ends(F41)"); if (si < 0) { endsOk = false; endsWhy = "untyped connector end does not lie in any shape"; v[q] = V++; } else { endShape[q] = si; coveredTerms.insert(si); v[q] = termNode(si); } }
                else { endsOk = false; endsWhy = "connector end is neither a junction nor a shape pin"; v[q] = V++; }
            }
            if (v[0] == v[1]) { res.count("zero_length_connectors_inside_a_terminal(F42)"); continue; }   // junction sitting on the terminal it connects to
            E.push_back({v[0], v[1]}); deg[v[0]]++; deg[v[1]]++;
            res.count("connectors_checked");
            if (r.size() < 2) { res.violate("route-too-short", wit("connector between two different nodes with fewer than 2 route points")); continue; }
            auto endOk = [&](const Avoid::Point &p, Avoid::ConnEnd *e, int si) {
                if (e->type() == Avoid::ConnEndJunction) { Avoid::Point w = e->junction()->position(), rp = e->junction()->recommendedPosition(); return (std::fabs(p.x - w.x) <= 1e-6 && std::fabs(p.y - w.y) <= 1e-6) || (std::fabs(p.x - rp.x) <= 1e-6 && std::fabs(p.y - rp.y) <= 1e-6); }
                if (si >= 0) { const LS &s = shapes[si]; return p.x >= s.x0 - 1e-6 && p.x <= s.x1 + 1e-6 && p.y >= s.y0 - 1e-6 && p.y <= s.y1 + 1e-6; }
                return false;
            };
            bool fwd = endOk(r.ps[0], ee[0], endShape[0]) && endOk(r.ps[r.size() - 1], ee[1], endShape[1]), rev = endOk(r.ps[0], ee[1], endShape[1]) && endOk(r.ps[r.size() - 1], ee[0], endShape[0]);
            if (!fwd && !rev) res.violate("route-does-not-join-its-two-attachments", JObj().i("transaction", txn).str("mode", mn[mode]).raw("displayRoute", routej(r)).raw("history", hist.done()).done());
            else if (!fwd) res.count("display_route_in_dst_to_src_order(observation)");
            // no segment through a shape other than this connector's own terminal shapes (a junction placed inside a terminal shape counts as that terminal)
            std::set<int> own; for (int q = 0; q < 2; q++) { if (endShape[q] >= 0) own.insert(endShape[q]); if (ee[q]->type() == Avoid::ConnEndJunction && fullReroute) { int si = shapeAt(ee[q]->junction()->position()); if (si >= 0) own.insert(si); } }
            for (size_t i = 1; i < r.size(); i++) for (size_t sidx = 0; sidx < shapes.size(); sidx++) {
                if (own.count((int)sidx)) continue;
                if (segHitsInteriorEps(DP{r.ps[i - 1].x, r.ps[i - 1].y}, DP{r.ps[i].x, r.ps[i].y}, rectPoly(shapes[sidx].x0, shapes[sidx].y0, shapes[sidx].x1, shapes[sidx].y1), 1e-6)) { res.violate(txn > 0 ? "hyperedge-route-through-shape[after-a-shape-moved]" : fullReroute ? "hyperedge-route-through-shape[full-reroute]" : "hyperedge-route-through-shape", JObj().i("transaction", txn).str("mode", mn[mode]).i("shape", (long)sidx).raw("displayRoute", routej(r)).raw("history", hist.done()).done()); i = r.size(); break; }
            }
            for (size_t i = 1; i < r.size(); i++) if (r.ps[i].x != r.ps[i - 1].x && r.ps[i].y != r.ps[i - 1].y) { res.count("diagonal_segments(observation)"); break; }
        }
        if (!endsOk) res.violate("connector-end-not-properly-attached", wit(endsWhy));
        if (mode == 3 && res.obs.count("untyped_terminal_ends(F41)")) res.violate("terminal-ends-untyped[reroute-by-terminals]", wit("connectors created by full rerouting from a terminal list report ConnEndEmpty for their terminal ends"));
        // a terminal on which a junction was placed is covered by that junction
        for (auto &kv : jnode) for (auto &tv : tnode) if (kv.second == tv.second) coveredTerms.insert(tv.first);
        // ---- tree checks: one tree per hyperedge
        std::vector<int> par(V); for (int i = 0; i < V; i++) par[i] = i;
        std::function<int(int)> f = [&](int x) { return par[x] == x ? x : par[x] = f(par[x]); };
        bool cyc = false; for (auto &e : E) { int x = f(e.first), y = f(e.second); if (x == y) cyc = true; else par[x] = y; }
        std::set<int> usedNodes; for (auto &e : E) { usedNodes.insert(e.first); usedNodes.insert(e.second); }
        std::set<int> roots; for (int v : usedNodes) roots.insert(f(v));
        std::string sfx = (fullReroute && txn > 0) ? "[full-reroute-then-move]" : "";
        if (cyc) res.violate("hyperedge-has-a-cycle" + sfx, wit("the connectors and junctions contain a cycle"));
        if ((int)roots.size() != (int)hes.size()) res.violate("hyperedge-not-a-single-tree" + sfx, JObj().str("what", "number of connected components differs from the number of hyperedges").i("components", (long)roots.size()).i("hyperedges", (long)hes.size()).i("transaction", txn).str("mode", mn[mode]).raw("history", hist.done()).done());
        // terminals preserved
        std::set<int> want = allTerms;
        if (want != coveredTerms) { JArr wj, gj; for (int t : want) wj.i(t); for (int t : coveredTerms) gj.i(t); res.violate("terminals-changed", JObj().raw("terminal_shapes_wanted", wj.done()).raw("terminal_shapes_attached", gj.done()).i("transaction", txn).str("mode", mn[mode]).raw("history", hist.done()).done()); }
        else if (!cyc && roots.size() == hes.size()) {
            std::map<int, std::set<int>> compTerms; for (auto &tv : tnode) if (usedNodes.count(tv.second)) compTerms[f(tv.second)].insert(tv.first);
            std::set<std::set<int>> got, exp; for (auto &kv : compTerms) got.insert(kv.second); for (auto &he : hes) exp.insert(std::set<int>(he.terms.begin(), he.terms.end()));
            if (got != exp) res.violate("terminals-mixed-between-hyperedges", wit("the trees do not partition the terminals as the hyperedges were given"));
        }
        // leaves must be terminals: a junction of degree 1 is a dangling connector
        for (auto &kv : jnode) { bool isTerm = false; for (auto &tv : tnode) if (tv.second == kv.second) isTerm = true; if (!isTerm && deg[kv.second] == 1) res.violate("dangling-junction-leaf", wit("a junction is a leaf of the tree (dangling connector)")); }
        res.count("junctions_live", (long)liveJ.size());
        liveBefore = liveC; liveJBefore = liveJ;
    };

    set_stage("processTransaction"); router->processTransaction(); hist.raw(JObj().str("op", "processTransaction").done());
    monitor(0, true);
    // further transactions: move shapes, which re-runs improvement
    int ntx = mode == 3 ? 0 : (int)R.ri(0, 3);   // connectors created from a terminal list have untyped ends (F41) and do not follow their shapes
    for (int tx = 1; tx <= ntx && res.findings.empty(); tx++) {
        int s = (int)R.ri(0, (long)shapes.size() - 1); LS &ls = shapes[s];
        for (int t = 0; t < 30; t++) {
            ll dx = R.ri(-40, 40), dy = R.ri(-40, 40); LS n{ls.x0 + dx, ls.y0 + dy, ls.x1 + dx, ls.y1 + dy, ls.ref};
            if (n.x0 < 5 || n.y0 < 5 || n.x1 > 495 || n.y1 > 495) continue;
            bool ok = true; for (size_t q = 0; q < shapes.size(); q++) if ((int)q != s && !(n.x1 + 25 < shapes[q].x0 || shapes[q].x1 + 25 < n.x0 || n.y1 + 25 < shapes[q].y0 || shapes[q].y1 + 25 < n.y0)) ok = false;
            if (!ok) continue;
            router->moveShape(ls.ref, (double)dx, (double)dy); ls = n; hist.raw(JObj().str("op", "moveShapeRel").i("shape", s).i("dx", dx).i("dy", dy).done()); D.i(s); D.i(dx); D.i(dy); res.count("moves"); break;
        }
        set_stage("processTransaction"); router->processTransaction(); hist.raw(JObj().str("op", "processTransaction").done());
        monitor(tx, mode < 2);
    }
    res.nontrivial = topologyChanged || true;
    res.nontrivial = topologyChanged;
    if (!topologyChanged) {   // improvement may also just move a junction
        for (auto o : router->m_obstacles) { Avoid::JunctionRef *j = dynamic_cast<Avoid::JunctionRef *>(o); if (j) { Avoid::Point p = j->position(), rp = j->recommendedPosition(); if (p.x != rp.x || p.y != rp.y) res.nontrivial = true; } }
    }
    res.digest = D.h;
    if (wantDesc || !res.findings.empty()) res.desc = JObj().str("mode", mn[mode]).num("segmentPenalty", pen).raw("history", hist.done()).done();
}

int main(int argc, char **argv) {
    return harness_main(argc, argv, "c12_hyper", [](const Args &a, long idx, bool wantDesc, CaseResult &res) {
        if (a.mode == "hyper") case_hyper(a, idx, wantDesc, res);
        else res.inconclusive = "unknown-mode";
    });
}
