// C17: shortest paths (dijkstra, johnsons, floyd_warshall) and the layout distance matrix
// against an independent Bellman-Ford oracle + union-find components.
#include "common.h"
#include <cfloat>
#include <valarray>
#include "libcola/shortest_paths.h"
#include "libcola/cola.h"
#include "libvpsc/rectangle.h"

using namespace vf;

struct G {
    unsigned n = 0;
    std::vector<std::pair<unsigned, unsigned>> es;
    std::vector<double> w;   // empty => unit weights convention
    bool unit = false;
};

static std::string g_json(const G &g) {
    JArr e; for (size_t i = 0; i < g.es.size(); i++) e.raw(JArr().i(g.es[i].first).i(g.es[i].second).num(g.unit ? 1.0 : g.w[i]).done());
    return JObj().i("n", g.n).b("unit_weights_via_empty_array", g.unit).raw("edges_u_v_w", e.done()).done();
}
static uint64_t g_digest(const G &g) { Digest D; D.i(g.n); D.i(g.unit); for (size_t i = 0; i < g.es.size(); i++) { D.i(g.es[i].first); D.i(g.es[i].second); D.d(g.unit ? 1.0 : g.w[i]); } return D.h; }

static void gen_graph(Rng &R, G &g, std::string &gen, unsigned maxn) {
    double u = R.rd();
    g.n = u < 0.5 ? (unsigned)R.ri(1, 12) : u < 0.85 ? (unsigned)R.ri(13, 50) : u < 0.97 ? (unsigned)R.ri(51, 120) : (unsigned)R.ri(121, 300);
    if (g.n > maxn) g.n = maxn;
    int kind = (int)R.ri(0, 6);
    static const char *names[] = {"simple", "parallel-edges", "self-loops", "zero-weights", "disconnected", "unit-empty-array", "dense"};
    gen = names[kind];
    unsigned n = g.n;
    unsigned m = (unsigned)R.ri(0, kind == 6 ? (long)std::min<unsigned>(n * n / 2 + 1, 600) : 2 * n + 1);
    if (kind == 4) m = (unsigned)R.ri(0, n / 2);
    auto weight = [&]() -> double {
        double t = R.rd();
        if (kind == 3 && t < 0.4) return 0.0;
        if (t < 0.1) return 0.0;
        if (t < 0.5) return (double)R.ri(1, 6);
        if (t < 0.8) return R.rd(0.001, 3.0);
        return (double)R.ri(1, 64) / 16.0;
    };
    g.unit = kind == 5;
    for (unsigned e = 0; e < m; e++) {
        unsigned a = (unsigned)R.ri(0, n - 1), b = (unsigned)R.ri(0, n - 1);
        if (a == b && kind != 2) continue;
        if (kind == 0 || kind == 5) { bool dup = false; for (auto &x : g.es) if ((x.first == a && x.second == b) || (x.first == b && x.second == a)) dup = true; if (dup) continue; }
        g.es.push_back({a, b}); g.w.push_back(weight());
        if (kind == 1 && R.coin(0.4)) { g.es.push_back(R.coin() ? std::make_pair(a, b) : std::make_pair(b, a)); g.w.push_back(weight()); }
    }
    if (g.unit) g.w.clear();
}

// Bellman-Ford single source (undirected), DBL_MAX = unreachable
static void bellman_ford(const G &g, unsigned s, std::vector<double> &d) {
    d.assign(g.n, DBL_MAX); d[s] = 0;
    for (unsigned r = 0; r < g.n; r++) {
        bool ch = false;
        for (size_t e = 0; e < g.es.size(); e++) {
            unsigned a = g.es[e].first, b = g.es[e].second; double w = g.unit ? 1.0 : g.w[e];
            if (d[a] != DBL_MAX && d[a] + w < d[b]) { d[b] = d[a] + w; ch = true; }
            if (d[b] != DBL_MAX && d[b] + w < d[a]) { d[a] = d[b] + w; ch = true; }
        }
        if (!ch) break;
    }
}
static std::vector<unsigned> components(const G &g) {
    std::vector<unsigned> p(g.n); for (unsigned i = 0; i < g.n; i++) p[i] = i;
    std::function<unsigned(unsigned)> f = [&](unsigned v) { while (p[v] != v) { p[v] = p[p[v]]; v = p[v]; } return v; };
    for (auto &e : g.es) p[f(e.first)] = f(e.second);
    for (unsigned i = 0; i < g.n; i++) p[i] = f(i);
    return p;
}
static bool differs(double got, double want) {
    if ((want == DBL_MAX) != (got == DBL_MAX)) return true;
    if (want == DBL_MAX) return false;
    return !(std::fabs(got - want) <= 1e-9 * (1 + std::fabs(want)));
}

static void case_graphs(const Args &a, long idx, bool wantDesc, CaseResult &res) {
    Rng R(mix(mix(a.seed, 0xC17), (uint64_t)idx));
    G g; std::string gen; gen_graph(R, g, gen, 300);
    res.gen = gen; res.digest = g_digest(g);
    if (wantDesc) res.desc = g_json(g);
    unsigned n = g.n;
    std::vector<shortest_paths::Edge> es(g.es.begin(), g.es.end());
    std::valarray<double> ew(g.w.data(), g.w.size());
    std::vector<unsigned> comp = components(g);
    bool allpairs = n <= 120;
    // oracle
    std::vector<std::vector<double>> O;
    std::vector<unsigned> sources;
    if (allpairs) { O.resize(n); for (unsigned s = 0; s < n; s++) { bellman_ford(g, s, O[s]); } }
    else { for (int k = 0; k < 4; k++) sources.push_back((unsigned)R.ri(0, n - 1)); }
    auto witness = [&](const char *algo, unsigned i, unsigned j, double got, double want) {
        return JObj().str("algorithm", algo).i("i", i).i("j", j).num("got", got).num("oracle", want).raw("graph", g_json(g)).done();
    };
    bool multi = false, disc = false;
    // oracle self-check: unreachable <=> different component
    if (allpairs) for (unsigned i = 0; i < n; i++) for (unsigned j = 0; j < n; j++) {
        if ((O[i][j] == DBL_MAX) != (comp[i] != comp[j])) { res.inconclusive = "oracle-self-check-failed"; return; }
        if (comp[i] != comp[j]) disc = true;
    }
    // --- dijkstra from some sources
    {
        std::vector<unsigned> ss = sources; if (allpairs) { for (int k = 0; k < 3 && n > 0; k++) ss.push_back((unsigned)R.ri(0, n - 1)); }
        for (unsigned s : ss) {
            std::vector<double> want; if (allpairs) want = O[s]; else bellman_ford(g, s, want);
            std::vector<double> d(n, -1);
            set_stage("dijkstra");
            shortest_paths::dijkstra(s, n, d.data(), es, ew);
            res.count("dijkstra_runs");
            for (unsigned j = 0; j < n; j++) if (differs(d[j], want[j])) { res.violate("dijkstra:wrong-distance", witness("dijkstra", s, j, d[j], want[j])); break; }
            if (d[s] != 0) res.violate("dijkstra:nonzero-self-distance", witness("dijkstra", s, s, d[s], 0));
        }
    }
    if (allpairs && n > 0) {
        double **D = new double *[n], **F = new double *[n];
        for (unsigned i = 0; i < n; i++) { D[i] = new double[n]; F[i] = new double[n]; for (unsigned j = 0; j < n; j++) D[i][j] = F[i][j] = -7; }
        set_stage("johnsons"); shortest_paths::johnsons(n, D, es, ew);
        set_stage("floyd_warshall"); shortest_paths::floyd_warshall(n, F, es, ew);
        res.count("allpairs_runs");
        bool bj = false, bf = false, bs = false, bd = false, ba = false;
        for (unsigned i = 0; i < n && !(bj && bf); i++) for (unsigned j = 0; j < n; j++) {
            double o = O[i][j];
            if (!bj && differs(D[i][j], o)) { bj = true; res.violate("johnsons:wrong-distance", witness("johnsons", i, j, D[i][j], o)); }
            if (!bf && differs(F[i][j], o)) { bf = true; res.violate(i == j ? "floyd_warshall:nonzero-diagonal" : "floyd_warshall:wrong-distance", witness("floyd_warshall", i, j, F[i][j], o)); }
            if (!bs && (D[i][j] != D[j][i] && differs(D[i][j], D[j][i]))) { bs = true; res.violate("johnsons:asymmetric", witness("johnsons", i, j, D[i][j], D[j][i])); }
            if (!bs && (F[i][j] != F[j][i] && differs(F[i][j], F[j][i]))) { bs = true; res.violate("floyd_warshall:asymmetric", witness("floyd_warshall", i, j, F[i][j], F[j][i])); }
            if (!bd && i == j && (D[i][j] != 0)) { bd = true; res.violate("johnsons:nonzero-diagonal", witness("johnsons", i, j, D[i][j], 0)); }
            if (!ba && differs(D[i][j], F[i][j])) { ba = true; res.count("johnsons_floyd_disagree(observation)"); }
            if (i != j && o != DBL_MAX) {  // does the shortest path use >= 2 edges?
                double direct = DBL_MAX; for (size_t e = 0; e < g.es.size(); e++) if ((g.es[e].first == i && g.es[e].second == j) || (g.es[e].first == j && g.es[e].second == i)) direct = std::min(direct, g.unit ? 1.0 : g.w[e]);
                if (o < direct) multi = true;
            }
        }
        for (unsigned i = 0; i < n; i++) { delete[] D[i]; delete[] F[i]; } delete[] D; delete[] F;
    } else multi = !g.es.empty();
    // --- the layout's distance matrix
    if (n <= 60 && n > 0 && allpairs) {
        bool hasSelfLoop = false; for (auto &e : g.es) if (e.first == e.second) hasSelfLoop = true;
        vpsc::Rectangles rs;
        for (unsigned i = 0; i < n; i++) { double x = R.rd(0, 300), y = R.rd(0, 300); rs.push_back(new vpsc::Rectangle(x, x + 10, y, y + 10)); }
        double ideal = R.coin(0.3) ? 1.0 : R.rd(0.5, 80);
        // eLengths: sometimes non-positive entries (documented: replaced by 1)
        std::vector<double> el; G g2 = g;
        if (!g.unit) { el = g.w; for (auto &v : el) { if (R.coin(0.1)) v = -R.rd(0, 2); } g2.w = el; for (auto &v : g2.w) if (v <= 0) v = 1; }
        std::vector<cola::Edge> ces(g.es.begin(), g.es.end());
        set_stage("ConstrainedFDLayout-ctor");
        FILE *saved = nullptr; (void)saved;
        int efd = dup(2); int nul = open("/dev/null", O_WRONLY); dup2(nul, 2); close(nul);   // silence the documented warning
        cola::ConstrainedFDLayout *alg = new cola::ConstrainedFDLayout(rs, ces, ideal, el);
        dup2(efd, 2); close(efd);
        std::vector<double> LD = alg->readLinearD(); std::vector<unsigned> LG = alg->readLinearG();
        delete alg;
        res.count("layout_matrices");
        bool bad = false;
        for (unsigned i = 0; i < n && !bad; i++) {
            std::vector<double> want; bellman_ford(g2, i, want);
            for (unsigned j = 0; j < n; j++) {
                if (i == j) continue;
                double wd = want[j] == DBL_MAX ? DBL_MAX : want[j] * ideal;
                bool isEdge = false; for (auto &e : g.es) if ((e.first == i && e.second == j) || (e.first == j && e.second == i)) isEdge = true;
                unsigned wg = want[j] == DBL_MAX ? 0 : isEdge ? 1 : 2;
                if (differs(LD[n * i + j], wd)) { bad = true; res.violate("layoutD:wrong-distance", JObj().i("i", i).i("j", j).num("got", LD[n * i + j]).num("oracle", wd).num("idealLength", ideal).raw("eLengths", jnums(el)).raw("graph", g_json(g)).done()); break; }
                if (LG[n * i + j] != wg) { bad = true; res.violate("layoutG:wrong-class", JObj().i("i", i).i("j", j).i("got", LG[n * i + j]).i("oracle", wg).raw("graph", g_json(g)).done()); break; }
            }
        }
        (void)hasSelfLoop;
        for (auto r : rs) delete r;
    }
    if (disc) res.count("graphs_with_unreachable_pairs");
    res.nontrivial = multi;
}

static void case_regress(const Args &, long idx, bool wantDesc, CaseResult &res) {
    // F4: floyd_warshall with parallel edges of different weight and a self-loop
    G g; g.n = 3;
    if (idx == 0) { g.es = {{0, 1}, {1, 0}, {1, 2}, {2, 2}}; g.w = {1.0, 5.0, 2.0, 3.0}; }
    else { res.inconclusive = "index-out-of-range"; return; }
    res.gen = "regress.F4-floyd-parallel-selfloop"; res.digest = g_digest(g); res.nontrivial = true;
    if (wantDesc) res.desc = g_json(g);
    std::vector<shortest_paths::Edge> es(g.es.begin(), g.es.end());
    std::valarray<double> ew(g.w.data(), g.w.size());
    double *F[3]; double buf[9]; for (int i = 0; i < 3; i++) F[i] = buf + 3 * i;
    shortest_paths::floyd_warshall(3u, F, es, ew);
    for (unsigned i = 0; i < 3; i++) { std::vector<double> want; bellman_ford(g, i, want); for (unsigned j = 0; j < 3; j++) if (differs(F[i][j], want[j])) { res.violate(i == j ? "floyd_warshall:nonzero-diagonal" : "floyd_warshall:wrong-distance", JObj().i("i", i).i("j", j).num("got", F[i][j]).num("oracle", want[j]).raw("graph", g_json(g)).done()); return; } }
}

int main(int argc, char **argv) {
    return harness_main(argc, argv, "c17_paths", [](const Args &a, long idx, bool wantDesc, CaseResult &res) {
        if (a.mode == "graphs") case_graphs(a, idx, wantDesc, res);
        else if (a.mode == "regress") case_regress(a, idx, wantDesc, res);
        else res.inconclusive = "unknown-mode";
    });
}
