// C03 / C04 / C05: libavoid route validity, Euclidean optimality, orthogonal optimality.
// Modes:
//   valid     C03  scenes in three regimes (separated / touching / dense), both routing modes, buffers, penalties, nudging, pins
//   shortest  C04  separated convex obstacles, polyline, segmentPenalty 0 / 5 / 50, vs visibility-graph Dijkstra
//   ortho     C05  separated rectangles, orthogonal, direction masks, segmentPenalty {1,10,50,200}, vs grid Dijkstra
//   bends     C05  exhaustive table: Avoid::bends() vs BFS minimum bend count (admissibility)
#include "avoid_scene.h"

using namespace av;
namespace Avoid { int bends(const Point &curr, unsigned int currDir, const Point &dest, unsigned int destDir); }

static std::vector<char> exemptFor(const Scene &S, IP a, IP b) {
    std::vector<char> ex(S.shapes.size(), 0);
    for (size_t s = 0; s < S.shapes.size(); s++) if (ptInClosed(a, S.shapes[s].poly) || ptInClosed(b, S.shapes[s].poly)) ex[s] = 1;
    return ex;
}

// ---- route validity against un-buffered shapes.  returns index of offending shape or -1
static int routeHitsShape(const Scene &S, const Avoid::PolyLine &r, const std::vector<char> &exempt, double eps, size_t *segOut = nullptr) {
    for (size_t i = 1; i < r.size(); i++) {
        DP a{r.ps[i - 1].x, r.ps[i - 1].y}, b{r.ps[i].x, r.ps[i].y};
        if (a.x == b.x && a.y == b.y) continue;
        for (size_t s = 0; s < S.shapes.size(); s++) {
            if (exempt[s]) continue;
            if (segHitsInteriorEps(a, b, S.shapes[s].poly, eps)) { if (segOut) *segOut = i; return (int)s; }
        }
    }
    return -1;
}
static bool allFinite(const Avoid::PolyLine &r) { for (size_t i = 0; i < r.size(); i++) if (!std::isfinite(r.ps[i].x) || !std::isfinite(r.ps[i].y)) return false; return true; }

// inflate convex polygon by the square [-d,d]^2 (Minkowski sum), exact
static IPoly inflate(const IPoly &pl, ll d) { std::vector<IP> pts; for (auto &p : pl) { pts.push_back({p.x + d, p.y + d}); pts.push_back({p.x + d, p.y - d}); pts.push_back({p.x - d, p.y + d}); pts.push_back({p.x - d, p.y - d}); } return hull(pts); }

// Is there a path with clearance between a and b?  (coordinates scaled x4, shapes inflated by 1 => clearance 1/4)
static bool pathWithClearanceExists(const Scene &S, IP a4, IP b4, const std::vector<char> &exempt) {   // a4, b4: end points in x4 coordinates
    Scene T; T.shapes.resize(S.shapes.size());
    std::vector<char> ex = exempt;
    for (size_t s = 0; s < S.shapes.size(); s++) {
        IPoly src = S.shapes[s].poly;
        if (S.orthogonal) { ll x0, y0, x1, y1; bbox(src, x0, y0, x1, y1); src = rectPoly(x0, y0, x1, y1); }   // the orthogonal router's obstacles are bounding boxes
        IPoly p4; for (auto &p : src) p4.push_back({p.x * 4, p.y * 4}); T.shapes[s].poly = inflate(p4, 1); if (ptInClosed(a4, T.shapes[s].poly) || ptInClosed(b4, T.shapes[s].poly)) ex[s] = 1; }
    VisOracle O; O.buildGraph(T, a4, b4, ex);
    return O.shortest(0) >= 0;
}

static void randomPenalties(Rng &R, Scene &S) {
    auto pick = [&](double dflt, double large) { int k = (int)R.ri(0, 2); return k == 0 ? 0.0 : k == 1 ? dflt : large; };
    S.params[Avoid::segmentPenalty] = S.orthogonal ? std::vector<double>{1, 10, 50, 200}[R.ri(0, 3)] : pick(10, 200);
    if (R.coin(0.5)) S.params[Avoid::anglePenalty] = pick(0, 50);
    if (R.coin(0.5)) S.params[Avoid::crossingPenalty] = pick(0, 200);
    if (R.coin(0.4)) S.params[Avoid::fixedSharedPathPenalty] = pick(0, 110);
    if (R.coin(0.4)) S.params[Avoid::reverseDirectionPenalty] = pick(0, 80);
}

static void case_valid(const Args &a, long idx, bool wantDesc, CaseResult &res) {
    Rng R(mix(mix(a.seed, 0xC03), (uint64_t)idx));
    Scene S; S.orthogonal = R.coin(0.5);
    int regime = (int)R.ri(0, 2);
    static const char *rn[] = {"separated", "touching", "dense"};
    S.regime = rn[regime];
    ll buffer = R.coin(0.3) ? (R.coin() ? 2 : 5) : 0;
    bool polys = buffer == 0;   // buffered non-rectangular shapes get mitred corners that reach far beyond the buffer distance; keep to rectangles there
    if (regime == 0) genSeparated(R, S, (int)R.ri(1, 14), 400, std::max<ll>(1, 2 * buffer + 2), polys);
    else if (regime == 1) { genTouching(R, S, (int)R.ri(2, 16), polys); buffer = 0; }
    else genSeparated(R, S, (int)R.ri(15, 40), 400, std::max<ll>(1, 2 * buffer + 2), polys, 18);
    if (S.shapes.empty()) { res.inconclusive = "empty-scene"; return; }
    if (buffer) S.params[Avoid::shapeBufferDistance] = (double)buffer;
    randomPenalties(R, S);
    bool nudging = S.orthogonal;   // display routes of orthogonal connectors are always nudged
    if (S.orthogonal) {
        S.params[Avoid::idealNudgingDistance] = std::vector<double>{1, 4, 12}[R.ri(0, 2)];
        if (R.coin(0.3)) S.options[Avoid::nudgeOrthogonalTouchingColinearSegments] = true;
        if (R.coin(0.3)) S.options[Avoid::performUnifyingNudgingPreprocessingStep] = false;
        if (R.coin(0.3)) S.options[Avoid::nudgeSharedPathsWithCommonEndPoint] = false;
        if (R.coin(0.2)) S.options[Avoid::penaliseOrthogonalSharedPathsAtConnEnds] = true;
    }
    int nc = (int)R.ri(1, 12);
    // endpoint kinds: 0 free point, 1 on a shape boundary (vertex or edge point), 2 centre pin of a shape
    struct End { int kind; IP p; int shape; };
    std::vector<std::pair<End, End>> ends;
    ll margin = S.orthogonal || buffer ? buffer + 1 : 0;
    for (int c = 0; c < nc; c++) {
        End e[2];
        for (int k = 0; k < 2; k++) {
            int kind = R.coin(0.7) ? 0 : (R.coin(0.5) ? 1 : 2);
            if ((buffer || (S.orthogonal && R.coin(0.5))) && kind == 1) kind = 0;   // the orthogonal router works on bounding boxes: a point on the border of a shape (or of its box) is outside it: the shape stays an obstacle
            e[k].kind = kind; e[k].shape = -1;
            if (kind == 0) { IP q, dummy; if (!genFreeEndpoints(R, S, 0, 420, margin, q, dummy)) { kind = 2; e[k].kind = 2; } else e[k].p = q; }
            if (kind == 1) { int s = (int)R.ri(0, (long)S.shapes.size() - 1); const IPoly &pl = S.shapes[s].poly; size_t v = (size_t)R.ri(0, (long)pl.size() - 1); IP p = pl[v], q = pl[(v + 1) % pl.size()]; if (R.coin(0.5) && ((p.x + q.x) % 2 == 0) && ((p.y + q.y) % 2 == 0)) e[k].p = IP{(p.x + q.x) / 2, (p.y + q.y) / 2}; else e[k].p = p; e[k].shape = s; }
            if (kind == 2) { e[k].shape = (int)R.ri(0, (long)S.shapes.size() - 1); }
        }
        if (e[0].kind != 2 && e[1].kind != 2 && e[0].p == e[1].p) { c--; if (R.coin(0.2)) c++; continue; }
        if (e[0].kind == 2 && e[1].kind == 2 && e[0].shape == e[1].shape) { continue; }
        ends.push_back({e[0], e[1]});
    }
    if (ends.empty()) { res.inconclusive = "no-connectors"; return; }
    // record as scene (pin ends are recorded with src/dst = shape index in a side list)
    JArr ej; for (auto &pr : ends) { JObj o; for (int k = 0; k < 2; k++) { const End &e = k ? pr.second : pr.first; o.raw(k ? "dst" : "src", e.kind == 2 ? JObj().i("centre_pin_of_shape", e.shape).done() : ipj(e.p)); } ej.raw(o.done()); }
    res.gen = std::string(S.orthogonal ? "orthogonal/" : "polyline/") + S.regime;
    Digest D; D.i(scene_digest(S)); for (auto &pr : ends) for (int k = 0; k < 2; k++) { const End &e = k ? pr.second : pr.first; D.i(e.kind); D.i(e.kind == 2 ? e.shape : e.p.x); D.i(e.kind == 2 ? 0 : e.p.y); }
    res.digest = D.h;
    std::string desc = JObj().raw("scene", scene_json(S)).raw("ends", ej.done()).done();
    if (wantDesc) res.desc = desc;

    Built B; build(S, B);
    const unsigned PIN = 1;
    std::vector<char> hasPin(S.shapes.size(), 0);
    std::vector<Avoid::ConnRef *> conns;
    for (auto &pr : ends) {
        Avoid::ConnEnd ce[2];
        for (int k = 0; k < 2; k++) {
            const End &e = k ? pr.second : pr.first;
            if (e.kind == 2) {
                if (!hasPin[e.shape]) { new Avoid::ShapeConnectionPin(B.shapes[e.shape], PIN, Avoid::ATTACH_POS_CENTRE, Avoid::ATTACH_POS_CENTRE, true, 0.0, Avoid::ConnDirNone); hasPin[e.shape] = 1; }
                ce[k] = Avoid::ConnEnd(B.shapes[e.shape], PIN);
            } else ce[k] = Avoid::ConnEnd(Avoid::Point((double)e.p.x, (double)e.p.y));
        }
        Avoid::ConnRef *cr = new Avoid::ConnRef(B.router, ce[0], ce[1]);
        cr->setRoutingType(S.orthogonal ? Avoid::ConnType_Orthogonal : Avoid::ConnType_PolyLine);
        conns.push_back(cr);
    }
    set_stage("processTransaction");
    B.router->processTransaction();
    set_stage("oracle");
    bool anyBlocked = false;
    for (size_t c = 0; c < conns.size(); c++) {
        const Avoid::PolyLine &r = conns[c]->displayRoute();
        auto wit = [&](const char *what, int shape = -1) { return JObj().str("what", what).i("connector", (long)c).i("shape", shape).raw("displayRoute", routej(r)).raw("case", desc).done(); };
        res.count("routes_checked");
        if (r.size() < 2) { res.violate("route-too-short", wit("fewer than 2 points")); continue; }
        if (!allFinite(r)) { res.violate("route-non-finite", wit("non-finite coordinate")); continue; }
        // attachments
        DP want[2]; std::vector<char> exempt(S.shapes.size(), 0), onBorder(S.shapes.size(), 0);
        // the sight lines of an end on a shape's border are part of the shared orthogonal visibility graph: any connector may ride them (F96)
        if (S.orthogonal) for (auto &pr : ends) for (const End *q : {&pr.first, &pr.second}) if (q->kind != 2) for (size_t s = 0; s < S.shapes.size(); s++) { ll x0, y0, x1, y1; bbox(S.shapes[s].poly, x0, y0, x1, y1); if (q->p.x >= x0 && q->p.x <= x1 && q->p.y >= y0 && q->p.y <= y1 && !ptStrictInside(q->p, S.shapes[s].poly)) onBorder[s] = 1; }   // on the box border, or on the polygon's own border inside its box
        IP ipEnd[2]; bool intEnd[2];
        for (int k = 0; k < 2; k++) {
            const End &e = k ? ends[c].second : ends[c].first;
            if (e.kind == 2) {
                ll x0, y0, x1, y1; bbox(S.shapes[e.shape].poly, x0, y0, x1, y1);
                want[k] = DP{(x0 + x1) / 2.0, (y0 + y1) / 2.0}; exempt[e.shape] = 1; intEnd[k] = true; ipEnd[k] = IP{2 * (x0 + x1), 2 * (y0 + y1)};   // x4 coordinates
            } else { want[k] = dp(e.p); intEnd[k] = true; ipEnd[k] = IP{4 * e.p.x, 4 * e.p.y}; for (size_t s = 0; s < S.shapes.size(); s++) { if (S.orthogonal) { ll x0, y0, x1, y1; bbox(S.shapes[s].poly, x0, y0, x1, y1); bool inBox = e.p.x >= x0 && e.p.x <= x1 && e.p.y >= y0 && e.p.y <= y1, strictly = e.p.x > x0 && e.p.x < x1 && e.p.y > y0 && e.p.y < y1;
                    (void)strictly; if (inBox && ptStrictInside(e.p, S.shapes[s].poly)) exempt[s] = 1; else if (inBox) { onBorder[s] = 1; res.count("orthogonal_endpoints_on_a_shape_border"); } } else if (ptInClosed(e.p, S.shapes[s].poly)) exempt[s] = 1; } }
        }
        const Avoid::Point &f = r.ps[0], &l = r.ps[r.size() - 1];
        if (f.x != want[0].x || f.y != want[0].y) res.violate("source-attachment-mismatch", wit("first route point differs from source attachment"));
        if (l.x != want[1].x || l.y != want[1].y) res.violate("dest-attachment-mismatch", wit("last route point differs from destination attachment"));
        // straight segment blocked? (non-triviality)
        bool blocked = false;
        for (size_t s = 0; s < S.shapes.size() && !blocked; s++) if (!exempt[s] && segHitsInteriorEps(want[0], want[1], S.shapes[s].poly, 0)) blocked = true;
        if (blocked) { anyBlocked = true; res.count("routes_with_blocked_straight_line"); }
        if (r.size() > 2) res.count("routes_with_bends");
        // obstacle avoidance (un-buffered polygons); integer routes are judged exactly (eps 0), others with a 1e-7 inset
        bool integral = true; for (size_t i = 0; i < r.size(); i++) if (r.ps[i].x != std::floor(r.ps[i].x) || r.ps[i].y != std::floor(r.ps[i].y)) integral = false;
        size_t seg = 0;
        int hit = routeHitsShape(S, r, exempt, integral ? 0.0 : 1e-7, &seg);
        if (hit >= 0) {
            // allowed only when no obstacle-free path (with clearance) exists: the documented straight-line fallback
            bool exists = intEnd[0] && intEnd[1] ? pathWithClearanceExists(S, ipEnd[0], ipEnd[1], exempt) : true;
            // signature of finding F17: the crossed shape belongs to a cluster of touching shapes one of which contains an endpoint
            bool inEndpointCluster = false;
            {
                std::vector<char> seen(S.shapes.size(), 0); std::vector<size_t> st;
                for (size_t s = 0; s < S.shapes.size(); s++) if (exempt[s] || onBorder[s]) { seen[s] = 1; st.push_back(s); }
                auto box = [&](size_t k) { ll x0, y0, x1, y1; bbox(S.shapes[k].poly, x0, y0, x1, y1); return rectPoly(x0, y0, x1, y1); };
                // the orthogonal router works on bounding boxes, so there "touching" means touching boxes
                while (!st.empty()) { size_t u = st.back(); st.pop_back(); for (size_t v = 0; v < S.shapes.size(); v++) if (!seen[v] && (S.orthogonal ? closedIntersect(box(u), box(v)) : closedIntersect(S.shapes[u].poly, S.shapes[v].poly))) { seen[v] = 1; st.push_back(v); } }
                bool clusterNontrivial = false; for (size_t v = 0; v < S.shapes.size(); v++) if (seen[v] && !exempt[v] && !onBorder[v]) clusterNontrivial = true;
                // either the crossed shape is in the cluster, or the route is the 2-point straight-line fallback the router resorts to
                // when the end inside the hemmed-in shape finds no exit
                inEndpointCluster = seen[hit] || (clusterNontrivial && r.size() == 2);
            }
            // signature of finding F19 (polyline): the offending segment goes through the shape without PROPERLY crossing any of its
            // edges (it enters/leaves through vertices, or its own end points lie on the shape's boundary) -- the blind spot of a
            // visibility test built on proper segment crossings
            bool degenerate = false;
            if (!S.orthogonal) {
                // judged on the raw route: displayRoute() merges collinear pieces, which hides the vertices the sight lines ended at
                const Avoid::PolyLine &raw = conns[c]->route();
                const IPoly &pl = S.shapes[hit].poly; bool proper = false, any = false;
                for (size_t i = 1; i < raw.size(); i++) {
                    DP p{raw.ps[i - 1].x, raw.ps[i - 1].y}, q{raw.ps[i].x, raw.ps[i].y};
                    if ((p.x == q.x && p.y == q.y) || !segHitsInteriorEps(p, q, pl, integral ? 0.0 : 1e-7)) continue;
                    any = true;
                    for (size_t e = 0; e < pl.size(); e++) { DP u = dp(pl[e]), v = dp(pl[(e + 1) % pl.size()]); long double a1 = crossd(p, q, u), a2 = crossd(p, q, v), b1 = crossd(u, v, p), b2 = crossd(u, v, q); if (((a1 > 0 && a2 < 0) || (a1 < 0 && a2 > 0)) && ((b1 > 0 && b2 < 0) || (b1 < 0 && b2 > 0))) proper = true; }
                }
                degenerate = any && !proper;
            }
            const char *sfx = onBorder[hit] ? ":route-through-shape[a-connector-end-lies-on-that-shape's-border]" : inEndpointCluster ? ":route-through-shape-touching-endpoint-shape-cluster" : degenerate ? ":route-through-shape-without-properly-crossing-an-edge" : ":route-through-shape";
            if (exists) res.violate(std::string(S.orthogonal ? "orthogonal" : "polyline") + sfx, JObj().i("connector", (long)c).i("shape", hit).i("segment", (long)seg).raw("displayRoute", routej(r)).raw("rawRoute", routej(conns[c]->route())).raw("case", desc).done());
            else res.count("no_clear_path_fallback_accepted");
        }
        // buffered rectangles: the route must also stay out of the buffered box (minus eps), rectangles only
        if (buffer && hit < 0) {
            for (size_t s = 0; s < S.shapes.size(); s++) {
                if (exempt[s] || !S.shapes[s].isRect) continue;
                ll x0, y0, x1, y1; bbox(S.shapes[s].poly, x0, y0, x1, y1);
                IPoly big = rectPoly(x0 - buffer, y0 - buffer, x1 + buffer, y1 + buffer);
                bool bad = false; for (size_t i = 1; i < r.size() && !bad; i++) if (segHitsInteriorEps(DP{r.ps[i - 1].x, r.ps[i - 1].y}, DP{r.ps[i].x, r.ps[i].y}, big, 1e-6)) bad = true;
                if (bad) { res.violate("route-inside-buffer-zone", JObj().i("connector", (long)c).i("shape", (long)s).num("buffer", (double)buffer).raw("displayRoute", routej(r)).raw("case", desc).done()); break; }
            }
            res.count("buffered_routes_checked");
        }
        if (S.orthogonal) for (size_t i = 1; i < r.size(); i++) if (r.ps[i].x != r.ps[i - 1].x && r.ps[i].y != r.ps[i - 1].y) { res.count("orthogonal_routes_with_diagonal_fallback(observation; C05 judges axis-parallelism)"); break; }
    }
    (void)nudging;
    res.nontrivial = anyBlocked;
}

// ---------------------------------------------------------------- C04
static void case_shortest(const Args &a, long idx, bool wantDesc, CaseResult &res) {
    Rng R(mix(mix(a.seed, 0xC04), (uint64_t)idx));
    Scene S; S.orthogonal = false; S.regime = "separated";
    double pen = R.coin(0.6) ? 0 : (R.coin() ? 5 : 50);
    genSeparated(R, S, (int)R.ri(1, 12), 400, 1 + R.ri(0, 3), true, R.coin(0.3) ? 15 : 60);
    S.params[Avoid::segmentPenalty] = pen;
    int nc = (int)R.ri(1, 4);
    for (int c = 0; c < nc; c++) { ConnSpec cs; if (!genFreeEndpoints(R, S, 0, 420, 0, cs.src, cs.dst)) continue; S.conns.push_back(cs); }
    if (S.conns.empty()) { res.inconclusive = "no-connectors"; return; }
    res.gen = pen == 0 ? "penalty0" : "penalty>0"; res.digest = scene_digest(S);
    std::string desc = scene_json(S); if (wantDesc) res.desc = desc;
    Built B; build(S, B);
    set_stage("processTransaction"); B.router->processTransaction(); set_stage("oracle");
    bool nt = false;
    for (size_t c = 0; c < S.conns.size(); c++) {
        const Avoid::PolyLine &r = B.conns[c]->displayRoute();
        std::vector<char> ex = exemptFor(S, S.conns[c].src, S.conns[c].dst);
        VisOracle O; O.buildGraph(S, S.conns[c].src, S.conns[c].dst, ex);
        // penalty 0: the true shortest path over the whole visibility graph; penalty > 0: optimum over taut paths
        double opt = pen == 0 ? O.shortest(0) : O.shortestTaut(pen);
        if (opt < 0) { res.count("unreachable(not judged)"); continue; }
        if (pen > 0) { double all = O.shortest(pen); if (all < opt - 1e-6) res.count("taut_optimum_above_unrestricted_visgraph_optimum(observation)"); }
        if (r.size() < 2) { res.violate("route-too-short", JObj().i("connector", (long)c).raw("case", desc).done()); continue; }
        double L = polylineLength(r); int b = countBends(r); double cost = L + pen * b;
        res.count("routes_judged"); if (b > 0) { nt = true; res.count("routes_with_bends"); }
        res.maxi("max_abs_cost_difference", std::fabs(cost - opt));
        bool invalid = routeHitsShape(S, r, ex, 0) >= 0;
        auto wit = [&]() { return JObj().i("connector", (long)c).num("route_cost", cost).num("route_length", L).i("route_bends", b).num("oracle_cost", opt).num("segmentPenalty", pen).raw("route", routej(r)).raw("case", desc).done(); };
        if (invalid) res.violate("route-through-shape", wit());
        else if (cost > opt + 1e-6) res.violate(pen == 0 ? "longer-than-shortest-path" : "costlier-than-optimum", wit());
        else if (cost < opt - 1e-6) { res.inconclusive = "oracle-disagreement: valid route cheaper than oracle optimum"; res.count("oracle_disagreement"); }
    }
    res.nontrivial = nt;
}

// ---------------------------------------------------------------- C05 (a),(b),(d)
static void case_ortho(const Args &a, long idx, bool wantDesc, CaseResult &res) {
    Rng R(mix(mix(a.seed, 0xC05), (uint64_t)idx));
    Scene S; S.orthogonal = true; S.regime = "separated-rectangles";
    double pen = std::vector<double>{1, 10, 50, 200}[R.ri(0, 3)];
    S.params[Avoid::segmentPenalty] = pen;
    S.params[Avoid::idealNudgingDistance] = 1;
    // many shared coordinates: snap to a coarse lattice half of the time
    ll snap = R.coin(0.5) ? 10 : 1;
    int ns = (int)R.ri(1, 10), tries = 0;
    while ((int)S.shapes.size() < ns && tries++ < 300) {
        ll w = R.ri(1, 6) * (snap == 10 ? 5 : 1) + (snap == 1 ? R.ri(2, 40) : 0), h = R.ri(1, 6) * (snap == 10 ? 5 : 1) + (snap == 1 ? R.ri(2, 40) : 0);
        ll cx = R.ri(3, 38) * 10 / snap * snap, cy = R.ri(3, 38) * 10 / snap * snap;
        if (snap == 1) { cx += R.ri(0, 9); cy += R.ri(0, 9); }
        ShapeSpec sp; sp.isRect = true; sp.poly = rectPoly(cx - w, cy - h, cx + w, cy + h);
        bool ok = true; for (auto &q : S.shapes) if (!boxesClear(sp.poly, q.poly, 2)) { ok = false; break; }
        if (ok) S.shapes.push_back(sp);
    }
    // Two families.  (1) all endpoints see in all directions, 1-3 connectors: the route cost must EQUAL the grid optimum.
    // (2) one connector with direction-restricted endpoints: there the optimum depends on which grid lines exist (a forced
    // U-turn has no minimum in the continuous plane), so the scene holds a single connector and the comparison grid is the
    // one spanned by the scene's own coordinates.
    bool masks = R.coin(0.35);
    int nc = masks ? 1 : (int)R.ri(1, 3);
    for (int c = 0; c < nc; c++) {
        ConnSpec cs; if (!genFreeEndpoints(R, S, 0, 420, 1, cs.src, cs.dst)) continue;
        if (snap == 10 && R.coin(0.5)) { cs.src.x = cs.src.x / 10 * 10; cs.dst.y = cs.dst.y / 10 * 10; if (!pointFree(S, cs.src, 1) || !pointFree(S, cs.dst, 1) || cs.src == cs.dst) continue; }
        if (masks) { cs.srcDirs = (unsigned)R.ri(1, 15); cs.dstDirs = (unsigned)R.ri(1, 15); if (cs.srcDirs == 15 && cs.dstDirs == 15) cs.srcDirs = (unsigned)R.ri(1, 14); }
        S.conns.push_back(cs);
    }
    // (3) bystanders: next to the judged all-direction connectors, 1-2 connectors with direction-restricted ends that start on the lines the judged ones
    // would like to use.  Connectors do not interact (no crossing or shared-path penalty), so the judged ones must still reach their optimum.
    std::vector<char> bystander(S.conns.size(), 0);
    if (!masks && !S.conns.empty() && R.coin(0.35)) {
        int nb = (int)R.ri(1, 2); size_t judged = S.conns.size();
        for (int b = 0; b < nb; b++) {
            const ConnSpec &j = S.conns[(size_t)R.ri(0, (long)judged - 1)]; ConnSpec cs; IP dummy;
            ll lx = std::min(j.src.x, j.dst.x), hx = std::max(j.src.x, j.dst.x), ly = std::min(j.src.y, j.dst.y), hy = std::max(j.src.y, j.dst.y);
            int w = (int)R.ri(0, 3); cs.src = w == 0 ? IP{j.src.x, R.ri(ly, hy)} : w == 1 ? IP{R.ri(lx, hx), j.src.y} : w == 2 ? IP{j.dst.x, R.ri(ly, hy)} : IP{R.ri(lx, hx), j.dst.y};
            if (!pointFree(S, cs.src, 1) || cs.src == j.src || cs.src == j.dst) continue;
            if (!genFreeEndpoints(R, S, 0, 420, 1, dummy, cs.dst) || cs.dst == cs.src) continue;
            cs.srcDirs = (unsigned)R.ri(1, 14); cs.dstDirs = R.coin() ? 15u : (unsigned)R.ri(1, 14);
            S.conns.push_back(cs); bystander.push_back(1); res.count("bystander_connectors_with_direction_masks");
        }
    }
    if (S.conns.empty()) { res.inconclusive = "no-connectors"; return; }
    res.gen = "pen" + std::to_string((int)pen) + (snap == 10 ? "/lattice" : "/free"); res.digest = scene_digest(S);
    std::string desc = scene_json(S); if (wantDesc) res.desc = desc;
    std::vector<IRect> rs; for (auto &s : S.shapes) { IRect r; bbox(s.poly, r.x0, r.y0, r.x1, r.y1); rs.push_back(r); }
    // libavoid documents one relaxation of endpoint direction masks (orthogonal.cpp,
    // fixConnectionPointVisibilityOnOutsideOfVisibilityGraph): a connector endpoint lying on the outermost scan position of the
    // whole scene (min/max y over all shape sides and endpoints) also gets left+right visibility, and one on the outermost x
    // position gets up+down.  The oracle applies the same documented relaxation so that it demands no more than the router promises.
    ll ex0 = (ll)4e18, ex1 = -(ll)4e18, ey0 = (ll)4e18, ey1 = -(ll)4e18;
    for (auto &r : rs) { ex0 = std::min(ex0, r.x0); ex1 = std::max(ex1, r.x1); ey0 = std::min(ey0, r.y0); ey1 = std::max(ey1, r.y1); }
    for (auto &c : S.conns) for (IP p : {c.src, c.dst}) { ex0 = std::min(ex0, p.x); ex1 = std::max(ex1, p.x); ey0 = std::min(ey0, p.y); ey1 = std::max(ey1, p.y); }
    auto effMask = [&](IP p, unsigned m) { if (p.y == ey0 || p.y == ey1) m |= Avoid::ConnDirLeft | Avoid::ConnDirRight; if (p.x == ex0 || p.x == ex1) m |= Avoid::ConnDirUp | Avoid::ConnDirDown; return m; };
    Built B; build(S, B);
    set_stage("processTransaction"); B.router->processTransaction(); set_stage("oracle");
    bool nt = false;
    for (size_t c = 0; c < S.conns.size(); c++) {
        const Avoid::PolyLine &raw = B.conns[c]->route(); const Avoid::PolyLine &disp = B.conns[c]->displayRoute();
        auto wit = [&](double cost, double opt, int b) { return JObj().i("connector", (long)c).num("route_cost", cost).i("route_bends", b).num("oracle_cost", opt).num("segmentPenalty", pen).raw("rawRoute", routej(raw)).raw("displayRoute", routej(disp)).raw("case", desc).done(); };
        if (bystander[c]) continue;
        res.count("routes_judged");
        bool diag = false;
        for (int w = 0; w < 2; w++) { const Avoid::PolyLine &r = w ? disp : raw; for (size_t i = 1; i < r.size(); i++) if (r.ps[i].x != r.ps[i - 1].x && r.ps[i].y != r.ps[i - 1].y) diag = true; }
        if (raw.size() < 2) { res.violate("route-too-short", wit(0, 0, 0)); continue; }
        unsigned sm = effMask(S.conns[c].src, S.conns[c].srcDirs), dm = effMask(S.conns[c].dst, S.conns[c].dstDirs);
        if (sm != S.conns[c].srcDirs || dm != S.conns[c].dstDirs) res.count("routes_with_outer_edge_mask_relaxation");
        int ob = 0; double opt = orthoOracle(S.conns[c].src, S.conns[c].dst, sm, dm, rs, pen, &ob);
        if (diag) {
            // no path in the grid spanned by the scene's own coordinates => the router's documented straight-line fallback
            if (opt < 0) res.violate("diagonal-fallback-no-path-in-scene-grid", wit(0, opt, 0)); else res.violate("diagonal-segment", wit(0, opt, 0));
            continue;
        }
        if (opt < 0) { res.count("oracle_found_no_path(not judged)"); continue; }
        double L = 0; bool blocked = false;
        for (size_t i = 1; i < raw.size(); i++) { L += std::fabs(raw.ps[i].x - raw.ps[i - 1].x) + std::fabs(raw.ps[i].y - raw.ps[i - 1].y); IP p{(ll)std::llround(raw.ps[i - 1].x), (ll)std::llround(raw.ps[i - 1].y)}, q{(ll)std::llround(raw.ps[i].x), (ll)std::llround(raw.ps[i].y)}; if (!(p == q) && orthoBlocked(p, q, rs)) blocked = true; }
        int b = countBends(raw); double cost = L + pen * b;
        double manh = (double)(std::llabs(S.conns[c].src.x - S.conns[c].dst.x) + std::llabs(S.conns[c].src.y - S.conns[c].dst.y));
        if (b >= 2 || L > manh + 1e-9) { nt = true; res.count("routes_with_detour_or_2+_bends"); }
        res.maxi("max_abs_cost_difference", std::fabs(cost - opt));
        bool dirsRestricted = S.conns[c].srcDirs != 15 || S.conns[c].dstDirs != 15; if (dirsRestricted) res.count("routes_with_direction_masks");
        // endpoint direction masks honoured (with the documented outer-edge relaxation)
        {
            auto dirOf = [](const Avoid::Point &from, const Avoid::Point &to) -> unsigned { if (to.x > from.x) return Avoid::ConnDirRight; if (to.x < from.x) return Avoid::ConnDirLeft; if (to.y > from.y) return Avoid::ConnDirDown; if (to.y < from.y) return Avoid::ConnDirUp; return 0u; };
            size_t i = 1; while (i < raw.size() && raw.ps[i] == raw.ps[0]) i++;
            size_t j = raw.size() - 1; while (j > 0 && raw.ps[j - 1] == raw.ps[raw.size() - 1]) j--;
            if (i < raw.size() && j > 0) {
                unsigned d0 = dirOf(raw.ps[0], raw.ps[i]), d1 = dirOf(raw.ps[raw.size() - 1], raw.ps[j - 1]);
                if (!(d0 & sm)) res.violate("source-direction-mask-not-honoured", wit(cost, opt, b));
                if (!(d1 & dm)) res.violate("dest-direction-mask-not-honoured", wit(cost, opt, b));
            }
        }
        if (blocked) res.violate("raw-route-through-rectangle", wit(cost, opt, b));
        else if (cost > opt + 1e-6) res.violate(dirsRestricted ? "direction-masks:costlier-than-grid-optimum" : bystander.size() > 0 && bystander.back() ? "costlier-than-optimum[another-connector-of-the-scene-has-direction-restricted-ends]" : "costlier-than-optimum", wit(cost, opt, b));
        else if (cost < opt - 1e-6) res.violate(dirsRestricted ? "direction-masks:cheaper-than-grid-optimum" : "cheaper-than-oracle", wit(cost, opt, b));
    }
    res.nontrivial = nt;
}

// ---------------------------------------------------------------- C05 (c): bends() admissible; exhaustive table
// direction bits used by makepath.cpp: N=1 (y-), E=2 (x+), S=4 (y+), W=8 (x-)
static int bfsMinBends(int cx, int cy, int cdir, int tx, int ty, int tdir) {
    // state (x, y, heading, movedSinceLastTurn): a turn needs a segment of positive length before the next turn
    const int G = 13; static const int DX[4] = {0, 1, 0, -1}, DY[4] = {-1, 0, 1, 0};   // index 0=N,1=E,2=S,3=W
    auto di = [](int bit) { return bit == 1 ? 0 : bit == 2 ? 1 : bit == 4 ? 2 : 3; };
    std::vector<int> dist(G * G * 8, 1 << 20); std::deque<int> dq;
    auto id = [&](int x, int y, int d, int mv) { return ((y * G + x) * 4 + d) * 2 + mv; };
    dist[id(cx, cy, di(cdir), 1)] = 0; dq.push_back(id(cx, cy, di(cdir), 1));
    while (!dq.empty()) {
        int s = dq.front(); dq.pop_front(); int mv = s % 2, d = s / 2 % 4, c = s / 8, x = c % G, y = c / G;
        int nx = x + DX[d], ny = y + DY[d];
        if (nx >= 0 && ny >= 0 && nx < G && ny < G) { int t = id(nx, ny, d, 1); if (dist[t] > dist[s]) { dist[t] = dist[s]; dq.push_front(t); } }
        if (mv) for (int nd : {(d + 1) % 4, (d + 3) % 4}) { int t = id(x, y, nd, 0); if (dist[t] > dist[s] + 1) { dist[t] = dist[s] + 1; dq.push_back(t); } }
    }
    // arrive at the target travelling in tdir, having moved into it (or being there already with that heading)
    return std::min(dist[id(tx, ty, di(tdir), 1)], dist[id(tx, ty, di(tdir), 0)] + 0 * 0 + ((cx == tx && cy == ty) ? 0 : 1 << 20));
}
static void case_bends(const Args &, long idx, bool wantDesc, CaseResult &res) {
    // idx encodes (relative position 0..7) x currDir (4) x destDir (4) x distance variant (3) = 384
    if (idx >= 8 * 4 * 4 * 3) { res.inconclusive = "index-out-of-range"; return; }
    int rel = (int)(idx % 8), cd = (int)(idx / 8 % 4), dd = (int)(idx / 32 % 4), var = (int)(idx / 128);
    static const int RX[8] = {-1, 0, 1, -1, 1, -1, 0, 1}, RY[8] = {-1, -1, -1, 0, 0, 1, 1, 1};
    int k = var == 0 ? 1 : var == 1 ? 2 : 3;
    int tx = 6, ty = 6, cx = 6 + RX[rel] * k, cy = 6 + RY[rel] * (var == 2 ? 1 : k);
    int cbit = 1 << cd, dbit = 1 << dd;
    int got = Avoid::bends(Avoid::Point(cx, cy), (unsigned)cbit, Avoid::Point(tx, ty), (unsigned)dbit);
    int want = bfsMinBends(cx, cy, cbit, tx, ty, dbit);
    res.gen = "bends-table"; res.digest = mix(0xBE5D5, (uint64_t)idx); res.nontrivial = want >= 1;
    res.count("table_entries"); if (got == want) res.count("estimate_equals_true_minimum"); else res.count("estimate_below_true_minimum");
    std::string d = JObj().raw("curr", JArr().i(cx).i(cy).done()).i("currDir", cbit).raw("dest", JArr().i(tx).i(ty).done()).i("destDir", dbit).i("bends_estimate", got).i("bfs_minimum", want).done();
    if (wantDesc) res.desc = d;
    if (got > want) res.violate("bends-estimate-exceeds-true-minimum", d);
    if (got < 0) res.violate("bends-estimate-negative", d);
}

int main(int argc, char **argv) {
    return harness_main(argc, argv, "c03_route", [](const Args &a, long idx, bool wantDesc, CaseResult &res) {
        if (a.mode == "valid") case_valid(a, idx, wantDesc, res);
        else if (a.mode == "shortest") case_shortest(a, idx, wantDesc, res);
        else if (a.mode == "ortho") case_ortho(a, idx, wantDesc, res);
        else if (a.mode == "bends") case_bends(a, idx, wantDesc, res);
        else res.inconclusive = "unknown-mode";
    });
}
