// C16: libavoid geometry predicates against exact integer / rational arithmetic.
// Modes: grid3 (all point triples on a GxG grid), grid4 (all quadruples), poly (all triangles and
// simple quadrilaterals x all query points), random (coordinates up to 2^20 with forced degeneracies).
#include "common.h"
#include "libavoid/libavoid.h"
#include "libavoid/geometry.h"

using namespace vf;
using Avoid::Point; using Avoid::Polygon;
typedef long long ll;
typedef __int128 i128;
struct P { ll x, y; };

static i128 cr(P a, P b, P c) { return (i128)(b.x - a.x) * (c.y - a.y) - (i128)(c.x - a.x) * (b.y - a.y); }
static int sg(i128 v) { return v > 0 ? 1 : (v < 0 ? -1 : 0); }
static bool eq(P a, P b) { return a.x == b.x && a.y == b.y; }
static bool onOpen(P a, P b, P c) {  // c strictly inside segment ab
    if (cr(a, b, c) != 0) return false;
    i128 d = (i128)(c.x - a.x) * (b.x - a.x) + (i128)(c.y - a.y) * (b.y - a.y);
    i128 L = (i128)(b.x - a.x) * (b.x - a.x) + (i128)(b.y - a.y) * (b.y - a.y);
    return d > 0 && d < L;
}
static Point pt(P a) { return Point((double)a.x, (double)a.y); }
static std::string pj(P a) { return JArr().i(a.x).i(a.y).done(); }

static int ref_cornerSide(P c1, P c2, P c3, P p) {
    int s123 = sg(cr(c1, c2, c3)), s12p = sg(cr(c1, c2, p)), s23p = sg(cr(c2, c3, p));
    if (s123 == 1) return (s12p >= 0 && s23p >= 0) ? 1 : -1;
    if (s123 == -1) return (s12p <= 0 && s23p <= 0) ? -1 : 1;
    return s12p;
}

// ---- three-point predicates
static bool check3(P a, P b, P c, CaseResult &res) {
    Point A = pt(a), B = pt(b), C = pt(c);
    i128 o = cr(a, b, c);
    bool degenerate = o == 0;
    auto w = [&](const char *pred, long got, long want) { return JObj().str("predicate", pred).raw("a", pj(a)).raw("b", pj(b)).raw("c", pj(c)).i("got", got).i("exact", want).done(); };
    int vd = Avoid::vecDir(A, B, C);
    if (vd != sg(o)) res.violate("vecDir", w("vecDir", vd, sg(o)));
    if (Avoid::vecDir(B, A, C) != -sg(o)) res.violate("vecDir:antisymmetry", w("vecDir(b,a,c)", Avoid::vecDir(B, A, C), -sg(o)));
    bool col = Avoid::colinear(A, B, C);
    if (col != (o == 0)) res.violate("colinear", w("colinear", col, o == 0));
    if (Avoid::colinear(B, A, C) != col) res.violate("colinear:symmetry", w("colinear(b,a,c)", Avoid::colinear(B, A, C), col));
    bool pol = Avoid::pointOnLine(A, B, C);
    if (pol != onOpen(a, b, c)) res.violate("pointOnLine", w("pointOnLine (c strictly inside ab)", pol, onOpen(a, b, c)));
    if (Avoid::pointOnLine(B, A, C) != pol) res.violate("pointOnLine:symmetry", w("pointOnLine(b,a,c)", Avoid::pointOnLine(B, A, C), pol));
    if (o == 0) {
        bool ib = Avoid::inBetween(A, B, C);
        if (ib != onOpen(a, b, c)) res.violate("inBetween", w("inBetween", ib, onOpen(a, b, c)));
    }
    return degenerate;
}

// ---- four-point predicates
static bool check4(P a, P b, P c, P d, CaseResult &res) {
    Point A = pt(a), B = pt(b), C = pt(c), D = pt(d);
    int abc = sg(cr(a, b, c)), abd = sg(cr(a, b, d)), cda = sg(cr(c, d, a)), cdb = sg(cr(c, d, b));
    bool degenerate = !abc || !abd || !cda || !cdb;
    auto w = [&](const char *pred, long got, long want) { return JObj().str("predicate", pred).raw("a", pj(a)).raw("b", pj(b)).raw("c", pj(c)).raw("d", pj(d)).i("got", got).i("exact", want).done(); };
    bool proper = abc * abd < 0 && cda * cdb < 0;
    bool si = Avoid::segmentIntersect(A, B, C, D);
    if (si != proper) res.violate("segmentIntersect", w("segmentIntersect (proper crossing)", si, proper));
    if (Avoid::segmentIntersect(C, D, A, B) != si || Avoid::segmentIntersect(B, A, D, C) != si || Avoid::segmentIntersect(A, B, D, C) != si)
        res.violate("segmentIntersect:symmetry", w("segmentIntersect swapped/reversed", 0, si));
    // cornerSide(a,b,c; d)
    int cs = Avoid::cornerSide(A, B, C, D);
    if (cs != ref_cornerSide(a, b, c, d)) res.violate("cornerSide", w("cornerSide", cs, ref_cornerSide(a, b, c, d)));
    // segmentShapeIntersect(e1=a,e2=b ; s1=c,s2=d) with a fresh flag: blocks iff proper crossing; otherwise sets flag iff
    // an endpoint of ab lies on the half-open side (c,d] and the other endpoint is off the line cd
    {
        bool seen = false;
        bool r = Avoid::segmentShapeIntersect(A, B, C, D, seen);
        bool touchA = (eq(d, a) || onOpen(c, d, a)) && cdb != 0, touchB = (eq(d, b) || onOpen(c, d, b)) && cda != 0;
        bool wantR = proper, wantSeen = !proper && (touchA || touchB);
        if (r != wantR) res.violate("segmentShapeIntersect", w("segmentShapeIntersect result (fresh flag)", r, wantR));
        else if (seen != wantSeen) res.violate("segmentShapeIntersect:flag", w("segmentShapeIntersect seenIntersectionAtEndpoint", seen, wantSeen));
        bool seen2 = true;
        bool r2 = Avoid::segmentShapeIntersect(A, B, C, D, seen2);
        if (r2 != (proper || touchA || touchB)) res.violate("segmentShapeIntersect:second-touch", w("segmentShapeIntersect result (flag already set)", r2, proper || touchA || touchB));
        if (!seen2) res.violate("segmentShapeIntersect:flag-cleared", w("seenIntersectionAtEndpoint after a call that started with it set (it is only ever set, never cleared)", seen2, 1));
        {   // the way the router uses it: one flag carried round all edges of a shape.  Triangle (c, d, a): blocked iff some edge is properly
            // crossed or the segment a-b... (kept simple: replay the loop against the single-edge reference semantics above)
            P tri[3] = {c, d, a}; bool flag = false, blocked = false, wantFlag = false, wantBlocked = false;
            for (int e = 0; e < 3 && !blocked; e++) { P s1 = tri[e], s2 = tri[(e + 1) % 3]; blocked = Avoid::segmentShapeIntersect(A, B, pt(s1), pt(s2), flag); }
            for (int e = 0; e < 3 && !wantBlocked; e++) {
                P s1 = tri[e], s2 = tri[(e + 1) % 3];
                int s_a = sg(cr(s1, s2, a)), s_b = sg(cr(s1, s2, b)); bool prop = sg(cr(a, b, s1)) * sg(cr(a, b, s2)) < 0 && s_a * s_b < 0;
                bool tA = (eq(s2, a) || onOpen(s1, s2, a)) && s_b != 0, tB = (eq(s2, b) || onOpen(s1, s2, b)) && s_a != 0;
                if (prop) wantBlocked = true; else if (tA || tB) { if (wantFlag) wantBlocked = true; wantFlag = true; }
            }
            if (blocked != wantBlocked) res.violate("segmentShapeIntersect:carried-flag-over-shape-edges", w("blocked verdict when one flag is carried over the edges of triangle (c,d,a)", blocked, wantBlocked));
        }
    }
    // segmentIntersectPoint
    {
        double x = 1e99, y = 1e99;
        int r = Avoid::segmentIntersectPoint(A, B, C, D, &x, &y);
        i128 den = (i128)(b.x - a.x) * (d.y - c.y) - (i128)(b.y - a.y) * (d.x - c.x);
        int want; long double ex = 0, ey = 0;
        if (den != 0) {
            i128 tn = (i128)(c.x - a.x) * (d.y - c.y) - (i128)(c.y - a.y) * (d.x - c.x), un = (i128)(c.x - a.x) * (b.y - a.y) - (i128)(c.y - a.y) * (b.x - a.x);
            if (den < 0) { tn = -tn; un = -un; den = -den; }
            want = (tn >= 0 && tn <= den && un >= 0 && un <= den) ? Avoid::DO_INTERSECT : Avoid::DONT_INTERSECT;
            ex = a.x + (long double)tn / (long double)den * (b.x - a.x); ey = a.y + (long double)tn / (long double)den * (b.y - a.y);
        } else {
            bool collin = !abc && !abd && !cda && !cdb;
            bool boxes = std::max(std::min(a.x, b.x), std::min(c.x, d.x)) <= std::min(std::max(a.x, b.x), std::max(c.x, d.x)) &&
                         std::max(std::min(a.y, b.y), std::min(c.y, d.y)) <= std::min(std::max(a.y, b.y), std::max(c.y, d.y));
            want = (collin && boxes) ? Avoid::PARALLEL : Avoid::DONT_INTERSECT;
        }
        if (r != want) res.violate("segmentIntersectPoint", w("segmentIntersectPoint code (0 dont,1 do,3 parallel)", r, want));
        else if (r == Avoid::DO_INTERSECT) {
            // the library evaluates a1 + d*A/f in doubles: the error is a few ulp of the largest INPUT coordinate
            double mag = 1; for (P q : {a, b, c, d}) mag = std::max(mag, (double)std::max(std::llabs(q.x), std::llabs(q.y)));
            double tol = 8 * 2.3e-16 * mag;
            if (std::fabs(x - (double)ex) > tol || std::fabs(y - (double)ey) > tol)
                res.violate("segmentIntersectPoint:point", JObj().raw("a", pj(a)).raw("b", pj(b)).raw("c", pj(c)).raw("d", pj(d)).num("x", x).num("y", y).num("exact_x", (double)ex).num("exact_y", (double)ey).done());
        }
        int rs = Avoid::segmentIntersectPoint(C, D, A, B, &x, &y);
        if (rs != r) res.violate("segmentIntersectPoint:symmetry", w("segmentIntersectPoint swapped", rs, r));
    }
    // rayIntersectPoint: intersection of the infinite lines
    {
        double x = 1e99, y = 1e99;
        int r = Avoid::rayIntersectPoint(A, B, C, D, &x, &y);
        i128 den = (i128)(b.x - a.x) * (d.y - c.y) - (i128)(b.y - a.y) * (d.x - c.x);
        int want = den == 0 ? Avoid::PARALLEL : Avoid::DO_INTERSECT;
        if (r != want) res.violate("rayIntersectPoint", w("rayIntersectPoint code", r, want));
        else if (den != 0) {
            i128 tn = (i128)(c.x - a.x) * (d.y - c.y) - (i128)(c.y - a.y) * (d.x - c.x);
            long double t = (long double)tn / (long double)den;
            long double ex = a.x + t * (b.x - a.x), ey = a.y + t * (b.y - a.y);
            double mag = 1; for (P q : {a, b, c, d}) mag = std::max(mag, (double)std::max(std::llabs(q.x), std::llabs(q.y)));
            double tol = 8 * 2.3e-16 * mag * (1 + (double)std::fabs(t));
            if (std::fabs(x - (double)ex) > tol || std::fabs(y - (double)ey) > tol)
                res.violate("rayIntersectPoint:point", JObj().raw("a", pj(a)).raw("b", pj(b)).raw("c", pj(c)).raw("d", pj(d)).num("x", x).num("y", y).num("exact_x", (double)ex).num("exact_y", (double)ey).done());
        }
    }
    return degenerate;
}

// ---- polygons
static bool proper_cross(P a, P b, P c, P d) { return sg(cr(a, b, c)) * sg(cr(a, b, d)) < 0 && sg(cr(c, d, a)) * sg(cr(c, d, b)) < 0; }
static bool on_closed(P a, P b, P c) { return eq(a, c) || eq(b, c) || onOpen(a, b, c); }
// exact closed point-in-simple-polygon: boundary => true, else crossing number with exact arithmetic
static bool ref_in_polygon(const std::vector<P> &poly, P q) {
    size_t n = poly.size();
    for (size_t i = 0; i < n; i++) if (on_closed(poly[i], poly[(i + 1) % n], q)) return true;
    bool in = false;
    for (size_t i = 0; i < n; i++) {
        P a = poly[i], b = poly[(i + 1) % n];
        if ((a.y > q.y) != (b.y > q.y)) {
            // x of intersection with horizontal line through q, compare with q.x exactly
            i128 lhs = (i128)(q.y - a.y) * (b.x - a.x) - (i128)(q.x - a.x) * (b.y - a.y);   // sign tells side
            if (b.y - a.y < 0) lhs = -lhs;
            if (lhs > 0) in = !in;
        }
    }
    return in;
}
static bool check_poly(const std::vector<P> &poly, P q, CaseResult &res, bool convexPositive) {
    Polygon pg((int)poly.size());
    for (size_t i = 0; i < poly.size(); i++) pg.ps[i] = pt(poly[i]);
    Point Q = pt(q);
    bool closed = ref_in_polygon(poly, q);
    bool boundary = false; for (size_t i = 0; i < poly.size(); i++) if (on_closed(poly[i], poly[(i + 1) % poly.size()], q)) boundary = true;
    auto w = [&](const char *pred, long got, long want) { JArr pa; for (auto &p : poly) pa.raw(pj(p)); return JObj().str("predicate", pred).raw("polygon", pa.done()).raw("q", pj(q)).i("got", got).i("exact", want).done(); };
    bool g = Avoid::inPolyGen(pg, Q);
    if (g != closed) res.violate("inPolyGen", w("inPolyGen (closed)", g, closed));
    if (convexPositive) {
        bool c1 = Avoid::inPoly(pg, Q, true), c0 = Avoid::inPoly(pg, Q, false);
        if (c1 != closed) res.violate("inPoly", w("inPoly(countBorder=true)", c1, closed));
        if (c0 != (closed && !boundary)) res.violate("inPoly:noborder", w("inPoly(countBorder=false)", c0, closed && !boundary));
    }
    return boundary;
}

static P gp(long k, int G) { return P{k / G, k % G}; }

int main(int argc, char **argv) {
    return harness_main(argc, argv, "c16_geom", [](const Args &a, long idx, bool wantDesc, CaseResult &res) {
        int G = (int)a.pl("grid", 5); long N = (long)G * G;
        res.digest = mix(std::hash<std::string>()(a.mode), (uint64_t)idx * 2654435761ULL + (uint64_t)G);
        if (a.mode == "grid3") {
            // one case = one ordered pair (a,b) x all c
            if (idx >= N * N) { res.inconclusive = "index-out-of-range"; return; }
            P A = gp(idx / N, G), B = gp(idx % N, G); bool deg = false;
            for (long k = 0; k < N; k++) deg |= check3(A, B, gp(k, G), res);
            res.count("tuples", N); res.nontrivial = deg; res.gen = "grid3";
            if (wantDesc) res.desc = JObj().raw("a", pj(A)).raw("b", pj(B)).str("c", "all grid points").i("grid", G).done();
        } else if (a.mode == "grid4") {
            // one case = one ordered triple (a,b,c) x all d
            if (idx >= N * N * N) { res.inconclusive = "index-out-of-range"; return; }
            P A = gp(idx / (N * N), G), B = gp(idx / N % N, G), C = gp(idx % N, G); bool deg = false;
            for (long k = 0; k < N; k++) deg |= check4(A, B, C, gp(k, G), res);
            res.count("tuples", N); res.nontrivial = deg; res.gen = "grid4";
            if (wantDesc) res.desc = JObj().raw("a", pj(A)).raw("b", pj(B)).raw("c", pj(C)).str("d", "all grid points").i("grid", G).done();
        } else if (a.mode == "poly") {
            // idx < N^3: triangle (a,b,c); else quadrilateral (a,b,c,d); x all query points
            std::vector<P> poly; long t = idx;
            if (t < N * N * N) { poly = {gp(t / (N * N), G), gp(t / N % N, G), gp(t % N, G)}; res.gen = "triangles"; }
            else { t -= N * N * N; if (t >= N * N * N * N) { res.inconclusive = "index-out-of-range"; return; } poly = {gp(t / (N * N * N), G), gp(t / (N * N) % N, G), gp(t / N % N, G), gp(t % N, G)}; res.gen = "quadrilaterals"; }
            size_t n = poly.size();
            // simple & non-degenerate: no zero-area corner, no repeated vertex, no crossing or touching non-adjacent edges
            bool ok = true; int pos = 0, neg = 0;
            for (size_t i = 0; i < n && ok; i++) { int s = sg(cr(poly[i], poly[(i + 1) % n], poly[(i + 2) % n])); if (s == 0) ok = false; (s > 0 ? pos : neg)++; for (size_t j = i + 1; j < n; j++) if (eq(poly[i], poly[j])) ok = false; }
            if (ok && n == 4) {
                if (proper_cross(poly[0], poly[1], poly[2], poly[3]) || proper_cross(poly[1], poly[2], poly[3], poly[0])) ok = false;
                for (int e = 0; e < 2 && ok; e++) { P s1 = poly[e], s2 = poly[e + 1], t1 = poly[e + 2], t2 = poly[(e + 3) % 4]; if (on_closed(s1, s2, t1) || on_closed(s1, s2, t2) || on_closed(t1, t2, s1) || on_closed(t1, t2, s2)) ok = false; }
            }
            if (!ok) { res.count("skipped_not_simple"); res.gen += "/skipped"; return; }
            bool convexPositive = neg == 0; bool bnd = false;
            for (long k = 0; k < N; k++) bnd |= check_poly(poly, gp(k, G), res, convexPositive);
            res.count("polygon_queries", N); if (convexPositive) res.count("convex_positive_polygons"); else res.count("other_simple_polygons");
            res.nontrivial = bnd;
            if (wantDesc) { JArr pa; for (auto &p : poly) pa.raw(pj(p)); res.desc = JObj().raw("polygon", pa.done()).str("q", "all grid points").done(); }
        } else if (a.mode == "random") {
            Rng R(mix(mix(a.seed, 0xC16), (uint64_t)idx));
            long M = 1L << (R.coin(0.3) ? 6 : R.coin(0.5) ? 12 : 20);
            auto rp = [&]() { return P{R.ri(-M, M), R.ri(-M, M)}; };
            P A = rp(), B = rp(), C, D;
            int kind = (int)R.ri(0, 5);
            auto onLine = [&](P a, P b) { ll dx = b.x - a.x, dy = b.y - a.y; ll g = std::__gcd(dx < 0 ? -dx : dx, dy < 0 ? -dy : dy); if (g == 0) return a; ll k = R.ri(-3, (long)g + 3); return P{a.x + dx / g * k, a.y + dy / g * k}; };
            if (kind == 0) { C = rp(); D = rp(); }
            else if (kind == 1) { C = onLine(A, B); D = rp(); }
            else if (kind == 2) { C = onLine(A, B); D = onLine(A, B); }
            else if (kind == 3) { C = A; D = rp(); }
            else if (kind == 4) { C = rp(); D = P{C.x + (B.x - A.x), C.y + (B.y - A.y)}; }
            else { C = onLine(A, B); D = P{C.x - (B.y - A.y), C.y + (B.x - A.x)}; }
            static const char *kn[] = {"general", "c-on-line-ab", "all-collinear", "shared-endpoint", "parallel", "perpendicular-touch"};
            res.gen = kn[kind];
            bool deg = check3(A, B, C, res); deg |= check4(A, B, C, D, res);
            // convex polygon: triangle or quad around a centre, positively oriented; query on vertices / edges / inside / outside
            {
                std::vector<P> poly; P c0 = rp(); ll r = R.ri(1, M);
                poly = {P{c0.x + r, c0.y}, P{c0.x, c0.y + r}, P{c0.x - r, c0.y}, P{c0.x, c0.y - r}};
                if (R.coin(0.3)) poly.pop_back();
                P q = R.coin(0.4) ? onLine(poly[0], poly[1]) : R.coin(0.5) ? P{c0.x + R.ri(-r, r), c0.y + R.ri(-r, r)} : poly[R.ri(0, (long)poly.size() - 1)];
                deg |= check_poly(poly, q, res, true);
            }
            res.count("tuples", 1); res.nontrivial = deg;
            res.digest = mix(mix(A.x, A.y) ^ mix(B.x, B.y), mix(C.x, C.y) ^ mix(D.x, D.y) ^ (uint64_t)kind);
            if (wantDesc) res.desc = JObj().raw("a", pj(A)).raw("b", pj(B)).raw("c", pj(C)).raw("d", pj(D)).str("kind", kn[kind]).done();
        } else res.inconclusive = "unknown-mode";
    });
}
