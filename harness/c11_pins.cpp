// C11: pins, junctions and checkpoints are honoured by routes -- over inputs and move/resize histories.
#include "avoid_scene.h"

using namespace av;

struct PinSpec { unsigned cls; double xo, yo; bool prop; double inside; unsigned dirs; int exclusive; double cost; Avoid::ShapeConnectionPin *ref;  bool unregistered = false; };  // exclusive: -1 default, 0/1 explicit
struct LShape { ll x0, y0, x1, y1; Avoid::ShapeRef *ref; std::vector<PinSpec> pins; };
struct CEnd { int kind; int shape; unsigned cls; IP p; int junction; };   // kind 0 free point, 1 pin class on shape, 2 junction
struct LConn { CEnd e[2]; std::vector<IP> cps; Avoid::ConnRef *ref; };

// the documented offset rule, evaluated by the harness
static DP expectedPinPos(const LShape &s, const PinSpec &p) {
    double w = (double)(s.x1 - s.x0), h = (double)(s.y1 - s.y0); DP q;
    if (p.prop) {
        q.x = p.xo == 0 ? s.x0 + p.inside : p.xo == 1 ? s.x1 - p.inside : s.x0 + p.xo * w;
        q.y = p.yo == 0 ? s.y0 + p.inside : p.yo == 1 ? s.y1 - p.inside : s.y0 + p.yo * h;
    } else {
        q.x = p.xo == 0 ? s.x0 + p.inside : (p.xo == -1 || p.xo == w) ? s.x1 - p.inside : s.x0 + p.xo;
        q.y = p.yo == 0 ? s.y0 + p.inside : (p.yo == -1 || p.yo == h) ? s.y1 - p.inside : s.y0 + p.yo;
    }
    return q;
}
static unsigned expectedDirs(const PinSpec &p) {
    if (p.dirs != Avoid::ConnDirNone) return p.dirs;
    unsigned d = 0;
    if (p.xo == 0) d |= Avoid::ConnDirLeft; else if (p.xo == 1) d |= Avoid::ConnDirRight;
    if (p.yo == 0) d |= Avoid::ConnDirUp; else if (p.yo == 1) d |= Avoid::ConnDirDown;
    return d ? d : (unsigned)Avoid::ConnDirAll;
}
static bool expectedExclusive(const PinSpec &p) { if (p.exclusive >= 0) return p.exclusive == 1; return expectedDirs(p) != Avoid::ConnDirAll; }

static void case_pins(const Args &a, long idx, bool wantDesc, CaseResult &res) {
    Rng R(mix(mix(a.seed, 0xC11), (uint64_t)idx));
    bool orth = R.coin(0.6);
    double pen = orth ? std::vector<double>{10, 50}[R.ri(0, 1)] : (R.coin() ? 0 : 10);
    Avoid::Router *router = new Avoid::Router(orth ? Avoid::OrthogonalRouting : Avoid::PolyLineRouting);
    struct Guard { Avoid::Router *&r; ~Guard() { if (!std::uncaught_exception()) delete r; } } guard{router};
    router->setRoutingParameter(Avoid::segmentPenalty, pen);
    // hyperedge improvement may move, merge or delete junctions and rewrite the routes around them: that is C12's subject; here junctions stay put
    router->setRoutingOption(Avoid::improveHyperedgeRoutesMovingJunctions, false);
    if (orth) router->setRoutingParameter(Avoid::idealNudgingDistance, std::vector<double>{1, 4}[R.ri(0, 1)]);
    JArr hist; Digest D; D.i(orth); D.d(pen);
    std::vector<LShape> shapes; std::vector<LConn> conns; std::vector<Avoid::JunctionRef *> junctions; std::vector<IP> jpos;

    auto clear = [&](ll x0, ll y0, ll x1, ll y1, int skip) { for (size_t i = 0; i < shapes.size(); i++) { if ((int)i == skip) continue; const LShape &q = shapes[i]; if (!(x1 + 14 <= q.x0 || q.x1 + 14 <= x0 || y1 + 14 <= q.y0 || q.y1 + 14 <= y0)) return false; } for (auto &c : conns) { for (int k = 0; k < 2; k++) if (c.e[k].kind == 0 && c.e[k].p.x >= x0 - 6 && c.e[k].p.x <= x1 + 6 && c.e[k].p.y >= y0 - 6 && c.e[k].p.y <= y1 + 6) return false; for (auto &p : c.cps) if (p.x >= x0 - 6 && p.x <= x1 + 6 && p.y >= y0 - 6 && p.y <= y1 + 6) return false; } for (auto &p : jpos) if (p.x >= x0 - 6 && p.x <= x1 + 6 && p.y >= y0 - 6 && p.y <= y1 + 6) return false; return true; };
    auto freePt = [&](IP &p) { for (int t = 0; t < 300; t++) { p = IP{R.ri(0, 420), R.ri(0, 420)}; bool ok = true; for (auto &s : shapes) if (p.x >= s.x0 - 6 && p.x <= s.x1 + 6 && p.y >= s.y0 - 6 && p.y <= s.y1 + 6) ok = false; if (ok) return true; } return false; };

    int ns = (int)R.ri(2, 7);
    for (int i = 0; i < ns; i++) for (int t = 0; t < 60; t++) {
        ll w = R.ri(4, 30) * 2, h = R.ri(4, 30) * 2, x0 = R.ri(10, 400 - w), y0 = R.ri(10, 400 - h);
        if (!clear(x0, y0, x0 + w, y0 + h, -1)) continue;
        LShape s{x0, y0, x0 + w, y0 + h, nullptr, {}};
        Avoid::Rectangle rect(Avoid::Point((double)x0, (double)y0), Avoid::Point((double)(x0 + w), (double)(y0 + h)));
        s.ref = new Avoid::ShapeRef(router, rect);
        // pins: 1-2 classes, 1-4 pins each
        int ncls = (int)R.ri(1, 2); JArr pj;
        for (int c = 1; c <= ncls; c++) {
            int np = (int)R.ri(1, 4); bool allDir = R.coin(0.3);
            for (int k = 0; k < np; k++) {
                PinSpec p; p.cls = (unsigned)c; p.prop = R.coin(0.7); p.inside = 0; p.cost = 0; p.exclusive = -1; p.ref = nullptr;
                int side = (int)R.ri(0, 4);   // 0 left 1 right 2 top 3 bottom 4 interior
                if (allDir) side = 4;
                if (!orth && side == 4) side = (int)R.ri(0, 3);   // polyline routing: a pin inside a shape has no visibility to the outside; keep pins on the border
                if (p.prop) {
                    static const double fr[] = {0.25, 0.5, 0.75, 0.125, 0.375, 0.625};
                    double f = fr[R.ri(0, 5)], g = fr[R.ri(0, 5)];
                    p.xo = side == 0 ? 0 : side == 1 ? 1 : f; p.yo = side == 2 ? 0 : side == 3 ? 1 : (side <= 1 ? g : (side == 4 ? g : 0));
                    if (side == 2) { p.xo = f; p.yo = 0; } if (side == 3) { p.xo = f; p.yo = 1; }
                } else {
                    double ax = (double)R.ri(2, w - 2), ay = (double)R.ri(2, h - 2);
                    p.xo = side == 0 ? 0 : side == 1 ? -1 : ax; p.yo = side == 2 ? 0 : side == 3 ? -1 : ay;
                    if (side <= 1) p.yo = ay; if (side == 2 || side == 3) p.xo = ax;
                }
                if (orth && side != 4 && R.coin(0.4)) p.inside = (double)R.ri(1, 2);
                // visibility: automatic, or explicit (the outward direction for side pins, a random mask for interior pins)
                unsigned outward = side == 0 ? Avoid::ConnDirLeft : side == 1 ? Avoid::ConnDirRight : side == 2 ? Avoid::ConnDirUp : side == 3 ? Avoid::ConnDirDown : Avoid::ConnDirAll;
                p.dirs = (p.prop && R.coin(0.5)) ? (unsigned)Avoid::ConnDirNone : (side == 4 ? (R.coin(0.6) ? (unsigned)Avoid::ConnDirAll : (unsigned)R.ri(1, 15)) : outward);
                if (!p.prop && side != 4) p.dirs = outward;   // absolute border pins: state the direction explicitly
                if (!p.prop && side == 4 && p.dirs == Avoid::ConnDirNone) p.dirs = Avoid::ConnDirAll;
                p.ref = new Avoid::ShapeConnectionPin(s.ref, p.cls, p.xo, p.yo, p.prop, p.inside, (Avoid::ConnDirFlags)p.dirs);
                if (R.coin(0.15)) { p.exclusive = (int)R.ri(0, 1); p.ref->setExclusive(p.exclusive == 1); }
                if (R.coin(0.15)) { p.cost = (double)R.ri(1, 40); p.ref->setConnectionCost(p.cost); }
                s.pins.push_back(p);
                pj.raw(JObj().i("class", p.cls).num("xOffset", p.xo).num("yOffset", p.yo).b("proportional", p.prop).num("insideOffset", p.inside).i("visDirs", p.dirs).i("exclusive(-1=default)", p.exclusive).num("cost", p.cost).done());
                D.i(p.cls); D.d(p.xo); D.d(p.yo); D.i(p.prop); D.d(p.inside); D.i(p.dirs); D.i(p.exclusive); D.d(p.cost);
            }
        }
        // often add an aligned pair in a class of its own: an all-directions centre pin plus a one-direction pin on the middle of a side,
        // both on one visibility line (the configuration in which a directional pin could borrow its neighbour's visibility)
        if (orth && R.coin(0.35)) {
            unsigned c = (unsigned)ncls + 1; int side = (int)R.ri(0, 3); double ins = R.coin(0.5) ? 0 : (double)R.ri(1, 2);
            PinSpec a; a.cls = c; a.prop = true; a.xo = 0.5; a.yo = 0.5; a.inside = 0; a.dirs = Avoid::ConnDirAll; a.exclusive = -1; a.cost = 0;
            PinSpec b = a; b.xo = side == 0 ? 0 : side == 1 ? 1 : 0.5; b.yo = side == 2 ? 0 : side == 3 ? 1 : 0.5; b.inside = ins; b.dirs = side == 0 ? Avoid::ConnDirLeft : side == 1 ? Avoid::ConnDirRight : side == 2 ? Avoid::ConnDirUp : Avoid::ConnDirDown;
            if (R.coin(0.5)) std::swap(a, b);
            for (PinSpec *p : {&a, &b}) { p->ref = new Avoid::ShapeConnectionPin(s.ref, p->cls, p->xo, p->yo, p->prop, p->inside, (Avoid::ConnDirFlags)p->dirs); if (p->dirs == Avoid::ConnDirAll) { p->exclusive = 1; p->ref->setExclusive(true); } s.pins.push_back(*p);
                pj.raw(JObj().i("class", p->cls).num("xOffset", p->xo).num("yOffset", p->yo).b("proportional", p->prop).num("insideOffset", p->inside).i("visDirs", p->dirs).i("exclusive(-1=default)", p->exclusive).num("cost", p->cost).done()); D.i(p->cls); D.d(p->xo); D.d(p->yo); D.d(p->inside); D.i(p->dirs); }
            res.count("aligned_centre_plus_side_pin_pairs");
        }
        // a pin created with exactly the values of an earlier pin of the shape is not registered in the shape's pin set (std::set semantics); it exists and reports a position, but the shape does not transform it
        for (size_t i = 0; i < s.pins.size(); i++) for (size_t j = 0; j < i; j++) { const PinSpec &a = s.pins[i], &b = s.pins[j]; if (!b.unregistered && a.cls == b.cls && a.xo == b.xo && a.yo == b.yo && a.prop == b.prop && a.inside == b.inside && a.dirs == b.dirs) s.pins[i].unregistered = true; }
        shapes.push_back(s);
        hist.raw(JObj().str("op", "addShape").i("id", (long)shapes.size() - 1).raw("rect_x0_y0_x1_y1", JArr().i(x0).i(y0).i(x0 + w).i(y0 + h).done()).raw("pins", pj.done()).done());
        D.i(x0); D.i(y0); D.i(w); D.i(h);
        break;
    }
    if (shapes.size() < 2) { res.inconclusive = "too-few-shapes"; return; }
    // junctions
    int nj = (int)R.ri(0, 2);
    for (int j = 0; j < nj; j++) { IP p; if (!freePt(p)) continue; Avoid::JunctionRef *jr = new Avoid::JunctionRef(router, Avoid::Point((double)p.x, (double)p.y)); if (R.coin(0.5)) jr->setPositionFixed(true); junctions.push_back(jr); jpos.push_back(p); hist.raw(JObj().str("op", "addJunction").raw("at", ipj(p)).done()); D.i(p.x); D.i(p.y); }
    // connectors: respect exclusive capacity per (shape, class)
    std::map<std::pair<int, unsigned>, int> used;
    auto capacity = [&](int s, unsigned cls) { int cap = 0; bool anyShared = false; for (auto &p : shapes[s].pins) if (p.cls == cls) { if (expectedExclusive(p)) cap++; else anyShared = true; } return anyShared ? 1000 : cap; };
    int nc = (int)R.ri(1, 8); bool multiPinClass = false, anyCheckpoint = false;
    for (int c = 0; c < nc; c++) {
        LConn L; L.ref = nullptr; bool ok = true;
        for (int k = 0; k < 2; k++) {
            double u = R.rd(); CEnd &e = L.e[k]; e.shape = -1; e.cls = 0; e.junction = -1; e.p = IP{0, 0};
            if (u < 0.65) { e.kind = 1; e.shape = (int)R.ri(0, (long)shapes.size() - 1); std::vector<unsigned> cl; for (auto &p : shapes[e.shape].pins) cl.push_back(p.cls); e.cls = cl[R.ri(0, (long)cl.size() - 1)]; if (used[{e.shape, e.cls}] >= capacity(e.shape, e.cls)) { e.kind = 0; if (!freePt(e.p)) ok = false; } else used[{e.shape, e.cls}]++; }
            else if (u < 0.8 && !junctions.empty()) { e.kind = 2; e.junction = (int)R.ri(0, (long)junctions.size() - 1); }
            else { e.kind = 0; if (!freePt(e.p)) ok = false; }
        }
        if (!ok) continue;
        if (L.e[0].kind == 1 && L.e[1].kind == 1 && L.e[0].shape == L.e[1].shape) { used[{L.e[1].shape, L.e[1].cls}]--; L.e[1].kind = 0; if (!freePt(L.e[1].p)) continue; }
        if (L.e[0].kind == 2 && L.e[1].kind == 2 && L.e[0].junction == L.e[1].junction) continue;
        if (L.e[0].kind == 0 && L.e[1].kind == 0 && L.e[0].p == L.e[1].p) continue;
        if (R.coin(0.25)) { int k = (int)R.ri(1, 3); for (int q = 0; q < k; q++) { IP p; if (freePt(p)) L.cps.push_back(p); } }
        Avoid::ConnEnd ce[2];
        JObj cj;
        for (int k = 0; k < 2; k++) { const CEnd &e = L.e[k]; ce[k] = e.kind == 1 ? Avoid::ConnEnd(shapes[e.shape].ref, e.cls) : e.kind == 2 ? Avoid::ConnEnd(junctions[e.junction]) : Avoid::ConnEnd(Avoid::Point((double)e.p.x, (double)e.p.y)); cj.raw(k ? "dst" : "src", e.kind == 1 ? JObj().i("shape", e.shape).i("pinClass", e.cls).done() : e.kind == 2 ? JObj().i("junction", e.junction).done() : ipj(e.p)); D.i(e.kind); D.i(e.shape); D.i(e.cls); D.i(e.junction); D.i(e.p.x); D.i(e.p.y); }
        L.ref = new Avoid::ConnRef(router, ce[0], ce[1]); L.ref->setRoutingType(orth ? Avoid::ConnType_Orthogonal : Avoid::ConnType_PolyLine);
        if (!L.cps.empty()) { std::vector<Avoid::Checkpoint> cps; JArr cpj; for (auto &p : L.cps) { cps.push_back(Avoid::Checkpoint(Avoid::Point((double)p.x, (double)p.y))); cpj.raw(ipj(p)); D.i(p.x); D.i(p.y); } L.ref->setRoutingCheckpoints(cps); cj.raw("checkpoints", cpj.done()); anyCheckpoint = true; }
        hist.raw(JObj().str("op", "addConnector").raw("connector", cj.done()).done());
        for (int k = 0; k < 2; k++) if (L.e[k].kind == 1) { int np = 0; for (auto &p : shapes[L.e[k].shape].pins) if (p.cls == L.e[k].cls) np++; if (np >= 2) multiPinClass = true; }
        conns.push_back(L);
    }
    if (conns.empty()) { res.inconclusive = "no-connectors"; return; }
    res.gen = std::string(orth ? "orthogonal" : "polyline"); res.nontrivial = multiPinClass || anyCheckpoint;

    // ---- the monitor, run after every transaction
    auto monitor = [&](int txn) {
        std::map<std::pair<std::pair<int, unsigned>, std::pair<double, double>>, int> exclUse;   // (shape, class, position) -> number of connector ends there
        std::map<std::pair<std::pair<int, unsigned>, std::pair<double, double>>, int> exclCap;   // exclusive pins of that class at that exact position (0 if a shared pin sits there too)
        for (size_t c = 0; c < conns.size(); c++) {
            const Avoid::PolyLine &disp = conns[c].ref->displayRoute(), &raw = conns[c].ref->route();
            auto wit = [&](const std::string &what) { return JObj().str("what", what).i("transaction", txn).i("connector", (long)c).raw("displayRoute", routej(disp)).raw("rawRoute", routej(raw)).raw("history", hist.done()).done(); };
            res.count("routes_checked");
            if (disp.size() < 2) { res.violate("route-too-short", wit("fewer than 2 points")); continue; }
            // libavoid sometimes hands back the displayed route of a junction-attached connector in dst->src order (observed after
            // hyperedge improvement); C11 speaks of where the ends ARE, so the route is read in whichever order matches the source end
            bool reversed = false;
            {
                const CEnd &e0 = conns[c].e[0]; Avoid::Point f = disp.ps[0], l = disp.ps[disp.size() - 1]; Avoid::Point want0;
                bool known = true;
                if (e0.kind == 0) want0 = Avoid::Point((double)e0.p.x, (double)e0.p.y); else if (e0.kind == 2) want0 = junctions[e0.junction]->position(); else known = false;
                if (known && !(f == want0) && l == want0) reversed = true;
                if (!known) { const CEnd &e1 = conns[c].e[1]; Avoid::Point want1; bool k1 = true; if (e1.kind == 0) want1 = Avoid::Point((double)e1.p.x, (double)e1.p.y); else if (e1.kind == 2) want1 = junctions[e1.junction]->position(); else k1 = false; if (k1 && !(l == want1) && f == want1) reversed = true; }
                if (reversed) res.count("display_route_in_dst_to_src_order(observation)");
            }
            for (int k = 0; k < 2; k++) {
                const CEnd &e = conns[c].e[k];
                bool atEnd = (k == 1) != reversed;
                Avoid::Point rp = atEnd ? disp.ps[disp.size() - 1] : disp.ps[0];
                if (e.kind == 0) { if (rp.x != (double)e.p.x || rp.y != (double)e.p.y) res.violate("free-end-not-at-its-point", wit("route end differs from the free endpoint")); continue; }
                if (e.kind == 2) { Avoid::Point jp = junctions[e.junction]->position(); res.count("junction_ends_checked"); if (rp.x != jp.x || rp.y != jp.y) res.violate("junction-end-not-at-junction-position", wit("route end differs from JunctionRef::position()")); if (jp.x != (double)jpos[e.junction].x || jp.y != (double)jpos[e.junction].y) res.count("junction_moved_by_router(observation)"); continue; }
                // pin end: must sit exactly on one pin of that class of that shape; position() must follow the documented offset rule
                const LShape &s = shapes[e.shape]; const PinSpec *hit = nullptr; unsigned groupDirs = 0;
                res.count("pin_ends_checked");
                for (auto &p : s.pins) {
                    if (p.cls != e.cls) continue;
                    DP want = expectedPinPos(s, p); Avoid::Point lib = p.ref->position();
                    if (std::fabs(lib.x - want.x) > 1e-9 || std::fabs(lib.y - want.y) > 1e-9) { res.violate("pin-position-differs-from-offset-rule", JObj().i("transaction", txn).i("shape", e.shape).i("class", p.cls).num("xOffset", p.xo).num("yOffset", p.yo).b("proportional", p.prop).num("insideOffset", p.inside).raw("library_position", JArr().num(lib.x).num(lib.y).done()).raw("expected", dpj(want)).raw("rect", JArr().i(s.x0).i(s.y0).i(s.x1).i(s.y1).done()).raw("history", hist.done()).done()); }
                    if (rp.x == lib.x && rp.y == lib.y && !hit) hit = &p;
                }
                if (!hit) {
                    // signature of F35: another connector that carries checkpoints attaches to the same pin class of the same shape
                    bool rival = false; for (size_t o = 0; o < conns.size(); o++) if (o != c && (!conns[o].cps.empty() || !conns[c].cps.empty())) for (int q = 0; q < 2; q++) if (conns[o].e[q].kind == 1 && conns[o].e[q].shape == e.shape && conns[o].e[q].cls == e.cls) rival = true;
                    // signature of F36: orthogonal connector fell back to the 2-point straight line between shape centres / free points
                    bool fallback = disp.size() == 2 && rp.x == (s.x0 + s.x1) / 2.0 && rp.y == (s.y0 + s.y1) / 2.0;
                    res.count("pin_connector_fallbacks");
                    // the class offers a non-exclusive pin with all directions open and another connector uses the class too: nothing restricts this end
                    bool openShared = false, otherUser = false;
                    for (auto &p : s.pins) if (p.cls == e.cls && !expectedExclusive(p) && expectedDirs(p) == (unsigned)Avoid::ConnDirAll) openShared = true;
                    for (size_t o = 0; o < conns.size(); o++) if (o != c) for (int q = 0; q < 2; q++) if (conns[o].e[q].kind == 1 && conns[o].e[q].shape == e.shape && conns[o].e[q].cls == e.cls) otherUser = true;
                    res.violate(rival ? "pin-end-not-at-a-pin-of-its-class[class-shared-with-checkpoint-connector]" : fallback ? std::string("pin-connector-fell-back-to-straight-line[") + (orth ? "orthogonal" : "polyline") + (openShared && otherUser ? ",open-shared-pin-already-in-use]" : "]") : "pin-end-not-at-a-pin-of-its-class", wit("route end is not the position of any pin of the class on that shape")); continue;
                }
                {   // all pins of the class at exactly this position form one group: its capacity is the number of exclusive pins, unlimited if one is shared
                    int cap = 0; bool shared = false; unsigned dirsHere = 0;
                    for (auto &p : s.pins) { if (p.cls != e.cls) continue; Avoid::Point lp = p.ref->position(); if (lp.x != rp.x || lp.y != rp.y) continue; if (expectedExclusive(p)) cap++; else shared = true; dirsHere |= expectedDirs(p); }
                    exclUse[{{e.shape, e.cls}, {rp.x, rp.y}}]++; exclCap[{{e.shape, e.cls}, {rp.x, rp.y}}] = shared ? 1000000 : cap;
                    groupDirs = dirsHere;
                }
                // orthogonal: the end segment leaves the pin in a permitted direction
                if (orth) {
                    size_t i = atEnd ? disp.size() - 1 : 0; long step = atEnd ? -1 : 1; size_t j = i;
                    while ((atEnd ? j > 0 : j + 1 < disp.size())) { j = (size_t)((long)j + step); if (disp.ps[j].x != rp.x || disp.ps[j].y != rp.y) break; }
                    Avoid::Point nb = disp.ps[j];
                    unsigned d = nb.x > rp.x ? Avoid::ConnDirRight : nb.x < rp.x ? Avoid::ConnDirLeft : nb.y > rp.y ? Avoid::ConnDirDown : nb.y < rp.y ? Avoid::ConnDirUp : 0u;
                    bool diagonal = nb.x != rp.x && nb.y != rp.y;
                    res.count("pin_directions_checked");
                    if (diagonal) res.count("diagonal_end_segment(fallback; not judged)");
                    else if (d && !(d & groupDirs)) {
                        // signature of F37: the pin sits exactly on the shape's border (no inside offset) and the route runs off ALONG that border line
                        bool onV = rp.x == (double)s.x0 || rp.x == (double)s.x1, onH = rp.y == (double)s.y0 || rp.y == (double)s.y1;
                        bool alongBorder = (onV && (d == Avoid::ConnDirUp || d == Avoid::ConnDirDown)) || (onH && (d == Avoid::ConnDirLeft || d == Avoid::ConnDirRight));
                        res.violate(std::string("pin-left-in-forbidden-direction") + (alongBorder ? "[along-the-border-it-sits-on]" : ""), JObj().i("transaction", txn).i("connector", (long)c).i("end", k).i("direction_taken", d).i("pin_visDirs", groupDirs).raw("displayRoute", routej(disp)).raw("history", hist.done()).done());
                    }
                }
            }
            // checkpoints visited in order (raw route for orthogonal: what nudging does to checkpoints is C10's business)
            if (!conns[c].cps.empty()) {
                const Avoid::PolyLine &r = orth ? raw : disp;
                double lastPos = -1; bool ok = true; std::string why;
                for (auto &p : conns[c].cps) {
                    double acc = 0, best = -1;
                    for (size_t i = 1; i < r.size() && best < 0; i++) {
                        double ax = r.ps[i - 1].x, ay = r.ps[i - 1].y, bx = r.ps[i].x, by = r.ps[i].y, len = std::hypot(bx - ax, by - ay);
                        if (len > 0) { double t = ((p.x - ax) * (bx - ax) + (p.y - ay) * (by - ay)) / (len * len); if (t >= -1e-12 && t <= 1 + 1e-12) { double px = ax + t * (bx - ax), py = ay + t * (by - ay); if (std::hypot(px - p.x, py - p.y) <= 1e-6 && acc + t * len >= lastPos - 1e-9) best = acc + t * len; } }
                        acc += len;
                    }
                    res.count("checkpoints_checked");
                    if (best < 0) { ok = false; why = "checkpoint " + ipj(p) + " not on the route after the previous checkpoint"; break; }
                    lastPos = best;
                }
                if (!ok) {
                    bool anyMissing = false;
                    for (auto &p : conns[c].cps) { double best = 1e300; for (size_t i = 1; i < r.size(); i++) { double ax = r.ps[i - 1].x, ay = r.ps[i - 1].y, bx = r.ps[i].x, by = r.ps[i].y; double px = std::min(std::max((double)p.x, std::min(ax, bx)), std::max(ax, bx)), py = std::min(std::max((double)p.y, std::min(ay, by)), std::max(ay, by)); if (ax == bx || ay == by) best = std::min(best, std::hypot(px - p.x, py - p.y)); else { double len = std::hypot(bx - ax, by - ay), t = std::min(1.0, std::max(0.0, ((p.x - ax) * (bx - ax) + (p.y - ay) * (by - ay)) / (len * len))); best = std::min(best, std::hypot(ax + t * (bx - ax) - p.x, ay + t * (by - ay) - p.y)); } } if (best > 1e-6) anyMissing = true; }
                    res.violate(anyMissing ? "checkpoint-skipped-by-router" : "checkpoints-not-visited-in-order", wit(why));
                }
            }
        }
        for (auto &kv : exclUse) if (kv.second > exclCap[kv.first]) res.violate("exclusive-pin-used-by-several-connectors", JObj().i("transaction", txn).i("shape", kv.first.first.first).i("class", kv.first.first.second).raw("position", JArr().num(kv.first.second.first).num(kv.first.second.second).done()).i("connector_ends", kv.second).i("exclusive_pins_there", exclCap[kv.first]).raw("history", hist.done()).done());
    };

    auto moveOps = [&](int nops, int first = -1) {
        std::set<int> touched;
        for (int o = 0; o < nops; o++) {
            int s = (o == 0 && first >= 0) ? first : (int)R.ri(0, (long)shapes.size() - 1); if (touched.count(s)) continue;
            LShape &ls = shapes[s];
            for (int t = 0; t < 30; t++) {
                bool resize = R.coin(0.4); ll w = ls.x1 - ls.x0, h = ls.y1 - ls.y0, x0, y0;
                if (resize) { w = R.ri(4, 30) * 2; h = R.ri(4, 30) * 2; }
                // absolute offsets must stay inside the resized shape
                bool fits = true; for (auto &p : ls.pins) if (!p.prop) { if (p.xo > 0 && p.xo > w - 2) fits = false; if (p.yo > 0 && p.yo > h - 2) fits = false; }
                if (!fits) continue;
                x0 = ls.x0 + R.ri(-40, 40); y0 = ls.y0 + R.ri(-40, 40); if (x0 < 5 || y0 < 5 || x0 + w > 415 || y0 + h > 415) continue;
                if (!clear(x0, y0, x0 + w, y0 + h, s)) continue;
                if (!resize && R.coin(0.5)) { router->moveShape(ls.ref, (double)(x0 - ls.x0), (double)(y0 - ls.y0)); hist.raw(JObj().str("op", "moveShapeRel").i("id", s).i("dx", x0 - ls.x0).i("dy", y0 - ls.y0).done()); }
                else { Avoid::Rectangle rect(Avoid::Point((double)x0, (double)y0), Avoid::Point((double)(x0 + w), (double)(y0 + h))); router->moveShape(ls.ref, rect); hist.raw(JObj().str("op", "moveShapeAbs").i("id", s).raw("rect_x0_y0_x1_y1", JArr().i(x0).i(y0).i(x0 + w).i(y0 + h).done()).done()); }
                ls.x0 = x0; ls.y0 = y0; ls.x1 = x0 + w; ls.y1 = y0 + h; touched.insert(s); D.i(s); D.i(x0); D.i(y0); D.i(w); D.i(h); res.count(resize ? "resizes" : "moves"); break;
            }
        }
    };
    // a connector end is given a new target (another shape's pin class, or a free point); returns the shape it was attached to before (or -1):
    // the caller then often moves that very shape in the same transaction, so that the shape's "my pins moved" update and the user's change meet in one queue
    auto retarget = [&]() -> int {
        size_t c = (size_t)R.ri(0, (long)conns.size() - 1); int k = (int)R.ri(0, 1); CEnd &e = conns[c].e[k]; const CEnd &other = conns[c].e[1 - k]; CEnd ne; ne.shape = -1; ne.cls = 0; ne.junction = -1; ne.p = IP{0, 0};
        if (R.coin(0.6)) { ne.kind = 1; ne.shape = (int)R.ri(0, (long)shapes.size() - 1); if ((e.kind == 1 && e.shape == ne.shape) || (other.kind == 1 && other.shape == ne.shape)) return -1;
            std::vector<unsigned> cl; for (auto &p : shapes[ne.shape].pins) cl.push_back(p.cls); ne.cls = cl[R.ri(0, (long)cl.size() - 1)]; if (used[{ne.shape, ne.cls}] >= capacity(ne.shape, ne.cls)) return -1; }
        else { ne.kind = 0; if (!freePt(ne.p) || (other.kind == 0 && other.p == ne.p)) return -1; }
        int old = e.kind == 1 ? e.shape : -1;
        if (e.kind == 1) used[{e.shape, e.cls}]--; if (ne.kind == 1) used[{ne.shape, ne.cls}]++;
        Avoid::ConnEnd ce = ne.kind == 1 ? Avoid::ConnEnd(shapes[ne.shape].ref, ne.cls) : Avoid::ConnEnd(Avoid::Point((double)ne.p.x, (double)ne.p.y));
        set_stage("setEndpoint"); if (k == 0) conns[c].ref->setSourceEndpoint(ce); else conns[c].ref->setDestEndpoint(ce);
        hist.raw(JObj().str("op", k == 0 ? "setSourceEndpoint" : "setDestEndpoint").i("connector", (long)c).raw("to", ne.kind == 1 ? JObj().i("shape", ne.shape).i("pinClass", ne.cls).done() : ipj(ne.p)).done());
        D.i(77); D.i((ll)c); D.i(k); D.i(ne.kind); D.i(ne.shape); D.i(ne.cls); D.i(ne.p.x); D.i(ne.p.y);
        e = ne; res.count("connector_ends_retargeted"); if (old >= 0) res.count("connector_ends_retargeted_away_from_a_pin");
        for (auto &p : shapes[ne.kind == 1 ? ne.shape : 0].pins) (void)p;
        return old;
    };
    // ShapeRef::transformConnectionPinPositions: flips and the half turn keep a rectangle's box, so only the pins change (offsets mirrored, explicit direction masks mirrored)
    auto transformPins = [&]() {
        int si = (int)R.ri(0, (long)shapes.size() - 1); int t = (int)R.ri(0, 2); LShape &ls = shapes[si]; double w = (double)(ls.x1 - ls.x0), h = (double)(ls.y1 - ls.y0);
        Avoid::ShapeTransformationType tt = t == 0 ? Avoid::TransformationType_FlipX : t == 1 ? Avoid::TransformationType_FlipY : Avoid::TransformationType_CW180;
        bool fx = t != 1, fy = t != 0;
        auto inv = [](double off, double len, bool prop) { if (prop) return 1.0 - off; if (off == 0) return -1.0; if (off == -1) return 0.0; return len - off; };
        for (auto &p : ls.pins) { if (p.unregistered) continue; if (fx) p.xo = inv(p.xo, w, p.prop); if (fy) p.yo = inv(p.yo, h, p.prop);
            if ((p.dirs & Avoid::ConnDirAll) && p.dirs != Avoid::ConnDirAll) { unsigned d = p.dirs, nd = 0; bool U = d & Avoid::ConnDirUp, Dn = d & Avoid::ConnDirDown, L = d & Avoid::ConnDirLeft, Rt = d & Avoid::ConnDirRight; if (fx) std::swap(L, Rt); if (fy) std::swap(U, Dn);
                if (U) nd |= Avoid::ConnDirUp; if (Dn) nd |= Avoid::ConnDirDown; if (L) nd |= Avoid::ConnDirLeft; if (Rt) nd |= Avoid::ConnDirRight; p.dirs = nd; } }
        set_stage("transformConnectionPinPositions"); ls.ref->transformConnectionPinPositions(tt);
        hist.raw(JObj().str("op", "transformConnectionPinPositions").i("id", si).str("transform", t == 0 ? "FlipX" : t == 1 ? "FlipY" : "CW180").done()); D.i(88); D.i(si); D.i(t); res.count("pin_transformations");
    };
    // shapes may be moved or resized while their addition is still queued (before the first processTransaction)
    bool earlyMoves = R.coin(0.25);
    if (earlyMoves) { set_stage("moves-before-first-transaction"); moveOps((int)R.ri(1, 3)); res.count("scenes_with_moves_before_the_first_transaction"); }
    set_stage("processTransaction"); router->processTransaction(); hist.raw(JObj().str("op", "processTransaction").done());
    monitor(0);
    int ntx = (int)R.ri(0, 4);
    for (int tx = 1; tx <= ntx && res.findings.empty(); tx++) {
        int first = -1; bool rt = R.coin(0.3), before = R.coin(0.5);
        if (rt && before) { int old = retarget(); if (old >= 0 && R.coin(0.7)) first = old; }
        if (R.coin(0.2)) transformPins();   // before any move of this transaction is queued: absolute offsets are mirrored within the shape's current box
        moveOps((int)R.ri(1, 2), first);
        if (rt && !before) retarget();
        set_stage("processTransaction"); router->processTransaction(); hist.raw(JObj().str("op", "processTransaction").done());
        monitor(tx);
    }
    res.digest = D.h;
    if (wantDesc || !res.findings.empty()) res.desc = JObj().str("routing", orth ? "orthogonal" : "polyline").num("segmentPenalty", pen).raw("history", hist.done()).done();
}

int main(int argc, char **argv) {
    return harness_main(argc, argv, "c11_pins", [](const Args &a, long idx, bool wantDesc, CaseResult &res) {
        if (a.mode == "pins") case_pins(a, idx, wantDesc, res);
        else res.inconclusive = "unknown-mode";
    });
}
