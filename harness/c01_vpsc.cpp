// C01 / C02 (and the VPSC part of C20): monitors for the VPSC solvers.
// Solvers under test: vpsc::Solver, vpsc::IncSolver, Avoid::IncSolver (libavoid's private copy).
// Modes:
//   instances   C01 on random instances (six generators)
//   tiny        C01 exhaustively on all instances n<=3, m<=3, gaps {-1,0,1,2}, d {0,1,2}
//   histories   C01 on live IncSolver histories (addConstraint / move desired / satisfy / solve)
//   opt         C02 against the certified QP oracle on random feasible instances
//   tinyopt     C02 exhaustively on tiny instances (active-set enumeration oracle)
//   perm        C02 order independence (permuted variables / constraints / ids)
//   resolve     C02 on re-solves of a live IncSolver after desired positions move
//   regress     pinned regression instances (fixed defects)
#include "common.h"
#include "qp_oracle.h"
#include "libvpsc/solve_VPSC.h"
#include "libvpsc/variable.h"
#include "libvpsc/constraint.h"
#include "libvpsc/exceptions.h"
#include "libavoid/vpsc.h"

using namespace vf;
using qp::Inst; using qp::Con; using qp::LD;

struct GenInfo { std::string gen; bool dag = false, hasEq = false, scaled = false, exact = false; };

static void add_con(Inst &I, int l, int r, double g, bool eq) { I.cs.push_back({l, r, g, eq}); }

static GenInfo gen_instance(Rng &R, Inst &I, long forceGen = -1, bool feasibleOnly = false) {
    GenInfo gi;
    int which = forceGen >= 0 ? (int)forceGen : (int)R.ri(0, 10);
    bool integer = R.coin(0.5);
    gi.exact = integer;
    int n;
    { double u = R.rd(); n = u < 0.6 ? (int)R.ri(1, 12) : u < 0.9 ? (int)R.ri(13, 40) : u < 0.985 ? (int)R.ri(41, 120) : (int)R.ri(121, 300); }
    auto val = [&](double lo, double hi) { return integer ? (double)R.ri((long)lo, (long)hi) : R.rd(lo, hi); };
    auto gap = [&]() { double u = R.rd(); if (u < 0.15) return integer ? -(double)R.ri(0, 4) : -R.rd(0, 4); if (u < 0.25) return 0.0; return integer ? (double)R.ri(1, 6) : R.rd(0.01, 6); };
    for (int i = 0; i < n; i++) {
        I.d.push_back(val(0, integer ? 20 : 50));
        I.w.push_back(R.coin(0.3) ? (integer ? (double)R.ri(1, 5) : R.rd(0.1, 10)) : 1.0);
        I.s.push_back(1.0);
    }
    switch (which) {
    case 0: case 1: {  // DAG, l < r in a hidden permutation
        gi.gen = "dag"; gi.dag = true;
        std::vector<int> perm(n); for (int i = 0; i < n; i++) perm[i] = i; R.shuffle(perm);
        int m = (int)R.ri(0, 3 * n);
        for (int c = 0; c < m && n > 1; c++) { int a = (int)R.ri(0, n - 1), b = (int)R.ri(0, n - 1); if (a == b) continue; if (a > b) std::swap(a, b); add_con(I, perm[a], perm[b], gap(), false); }
        break; }
    case 2: case 3: {  // arbitrary multigraph: cycles, duplicates
        gi.gen = "multigraph";
        int m = (int)R.ri(0, 3 * n);
        for (int c = 0; c < m && n > 1; c++) { int a = (int)R.ri(0, n - 1), b = (int)R.ri(0, n - 1); if (a == b) continue; add_con(I, a, b, gap(), false); if (R.coin(0.1)) add_con(I, a, b, gap(), false); }
        break; }
    case 4: {  // cycles that are exactly tight or slightly infeasible/feasible
        gi.gen = "cycles";
        int k = std::min(n, (int)R.ri(2, 6));
        if (n >= 2) {
            std::vector<int> nodes; for (int i = 0; i < n; i++) nodes.push_back(i); R.shuffle(nodes);
            double sum = 0; std::vector<double> gs;
            for (int i = 0; i + 1 < k; i++) { double g = gap(); gs.push_back(g); sum += g; }
            double last = -sum + (R.coin(0.34) ? 0 : R.coin(0.5) ? (integer ? 1 : R.rd(0.01, 2)) : -(integer ? 1 : R.rd(0.01, 2)));
            gs.push_back(last);
            for (int i = 0; i < k; i++) add_con(I, nodes[i], nodes[(i + 1) % k], gs[i], false);
            int m = (int)R.ri(0, n);
            for (int c = 0; c < m; c++) { int a = (int)R.ri(0, n - 1), b = (int)R.ri(0, n - 1); if (a == b) continue; if (a > b) std::swap(a, b); add_con(I, nodes[a], nodes[b], gap(), false); }
        }
        break; }
    case 5: {  // with equalities (DAG orientation, tree-like equalities + inequalities)
        gi.gen = "equalities"; gi.hasEq = true;
        int m = (int)R.ri(0, 2 * n);
        for (int c = 0; c < m && n > 1; c++) { int a = (int)R.ri(0, n - 1), b = (int)R.ri(0, n - 1); if (a == b) continue; if (R.coin(0.8) && a > b) std::swap(a, b); add_con(I, a, b, gap(), R.coin(0.3)); }
        break; }
    case 6: {  // chain / star / grid structures as produced by overlap removal and nudging
        gi.gen = "structured"; gi.dag = true;
        int shape = (int)R.ri(0, 2);
        if (shape == 0) for (int i = 0; i + 1 < n; i++) add_con(I, i, i + 1, gap(), false);
        else if (shape == 1) for (int i = 1; i < n; i++) { if (R.coin()) add_con(I, 0, i, gap(), false); else add_con(I, i, 0, gap(), false); }
        else { int wdt = std::max(1, (int)std::sqrt((double)n)); for (int i = 0; i < n; i++) { if ((i + 1) % wdt && i + 1 < n) add_con(I, i, i + 1, gap(), false); if (i + wdt < n) add_con(I, i, i + wdt, gap(), false); } }
        if (shape == 1) { gi.dag = false; }
        break; }
    case 7: {  // scaled variables, DAG
        gi.gen = "scaled-dag"; gi.dag = true; gi.scaled = true;
        for (int i = 0; i < n; i++) I.s[i] = integer ? (double)R.ri(1, 3) : (R.coin(0.5) ? 1.0 : R.rd(0.5, 3));
        int m = (int)R.ri(0, 3 * n);
        for (int c = 0; c < m && n > 1; c++) { int a = (int)R.ri(0, n - 1), b = (int)R.ri(0, n - 1); if (a == b) continue; if (a > b) std::swap(a, b); add_con(I, a, b, gap(), false); }
        break; }
    case 10: {  // scaled variables with cycles and duplicates (incremental solvers only; feasibility is not judged for scaled systems)
        gi.gen = "scaled-cyclic"; gi.scaled = true;
        for (int i = 0; i < n; i++) I.s[i] = integer ? (double)R.ri(1, 3) : (R.coin(0.5) ? 1.0 : R.rd(0.5, 3));
        int m = (int)R.ri(0, 3 * n);
        for (int c = 0; c < m && n > 1; c++) { int a = (int)R.ri(0, n - 1), b = (int)R.ri(0, n - 1); if (a == b) continue; if (R.coin(0.6) && a > b) std::swap(a, b); add_con(I, a, b, gap(), false); }
        break; }
    case 8: {  // many coincident desired positions and zero gaps (maximal ties)
        gi.gen = "ties"; gi.exact = true;
        for (int i = 0; i < n; i++) { I.d[i] = (double)R.ri(0, 2); I.w[i] = 1; }
        int m = (int)R.ri(0, 3 * n);
        for (int c = 0; c < m && n > 1; c++) { int a = (int)R.ri(0, n - 1), b = (int)R.ri(0, n - 1); if (a == b) continue; if (R.coin(0.9) && a > b) std::swap(a, b); add_con(I, a, b, (double)R.ri(0, 2), false); }
        break; }
    default: {  // dense small
        gi.gen = "dense-small";
        n = std::min(n, 8); I.d.resize(n); I.w.resize(n); I.s.resize(n);
        int m = (int)R.ri(n, 4 * n);
        for (int c = 0; c < m && n > 1; c++) { int a = (int)R.ri(0, n - 1), b = (int)R.ri(0, n - 1); if (a == b) continue; if (R.coin(0.7) && a > b) std::swap(a, b); add_con(I, a, b, gap(), false); }
        break; }
    }
    (void)feasibleOnly;
    return gi;
}

static std::string inst_json(const Inst &I) {
    JArr cs;
    for (auto &k : I.cs) cs.raw(JArr().i(k.l).i(k.r).num(k.g).i(k.eq ? 1 : 0).done());
    return JObj().raw("d", jnums(I.d)).raw("w", jnums(I.w)).raw("s", jnums(I.s)).raw("cons_l_r_gap_eq", cs.done()).done();
}
static uint64_t inst_digest(const Inst &I) {
    Digest D; for (double v : I.d) D.d(v); for (double v : I.w) D.d(v); for (double v : I.s) D.d(v);
    for (auto &k : I.cs) { D.i(k.l); D.i(k.r); D.d(k.g); D.i(k.eq); }
    return D.h;
}

// ---------------------------------------------------------------- running the solvers
enum SolverKind { STATIC_SATISFY, STATIC_SOLVE, INC_SATISFY, INC_SOLVE, AV_SATISFY, AV_SOLVE, NKINDS };
static const char *kindName[] = {"static.satisfy", "static.solve", "inc.satisfy", "inc.solve", "avoid.satisfy", "avoid.solve"};

struct Run {
    bool threw = false; std::string what;
    std::vector<double> x; std::vector<char> flagged, active;
    bool ret = false;
    unsigned long refineExhausted = 0, splits = 0, merges = 0, unsat = 0;   // from the libvpsc hook counters
};

template <class V, class C, class S>
static void run_generic(const Inst &I, bool doSolve, Run &out, const std::vector<int> *vorder = nullptr, const std::vector<int> *corder = nullptr, int idBase = 0) {
    size_t n = I.n(), m = I.cs.size();
    std::vector<V *> vs(n); std::vector<C *> cs(m);
    std::vector<V *> byIndex(n);
    for (size_t p = 0; p < n; p++) { size_t i = vorder ? (size_t)(*vorder)[p] : p; V *v = new V((int)(idBase + (vorder ? (long)(n - p) * 7 : (long)i)), I.d[i], I.w[i], I.s[i]); vs[p] = v; byIndex[i] = v; }
    for (size_t q = 0; q < m; q++) { size_t c = corder ? (size_t)(*corder)[q] : q; const Con &k = I.cs[c]; cs[q] = new C(byIndex[k.l], byIndex[k.r], k.g, k.eq); }
#ifdef ADAPTAGRAMS_VERIF
    vpsc::VerifCounters before = vpsc::verifCounters;
#endif
    try {
        S s(vs, cs);
        out.ret = doSolve ? s.solve() : s.satisfy();
    } catch (vpsc::UnsatisfiedConstraint &) { out.threw = true; out.what = "UnsatisfiedConstraint";
    } catch (Avoid::UnsatisfiedConstraint &) { out.threw = true; out.what = "UnsatisfiedConstraint";
    } catch (char *) { out.threw = true; out.what = "char*";
    } catch (const char *) { out.threw = true; out.what = "char*"; }
#ifdef ADAPTAGRAMS_VERIF
    out.refineExhausted = vpsc::verifCounters.refineExhausted - before.refineExhausted;
    out.splits = (vpsc::verifCounters.refineSplits - before.refineSplits) + (vpsc::verifCounters.incSplits - before.incSplits);
    out.merges = vpsc::verifCounters.incMerges - before.incMerges;
    out.unsat = vpsc::verifCounters.unsatMarks - before.unsatMarks;
#endif
    out.x.resize(n); out.flagged.assign(m, 0); out.active.assign(m, 0);
    for (size_t i = 0; i < n; i++) out.x[i] = byIndex[i]->finalPosition;
    for (size_t q = 0; q < m; q++) { size_t c = corder ? (size_t)(*corder)[q] : q; out.flagged[c] = cs[q]->unsatisfiable; out.active[c] = cs[q]->active; }
    for (auto c : cs) delete c; for (auto v : vs) delete v;
}
static void run_kind(const Inst &I, int kind, Run &out, const std::vector<int> *vo = nullptr, const std::vector<int> *co = nullptr, int idBase = 0) {
    set_stage(kindName[kind]);
    switch (kind) {
    case STATIC_SATISFY: run_generic<vpsc::Variable, vpsc::Constraint, vpsc::Solver>(I, false, out, vo, co, idBase); break;
    case STATIC_SOLVE: run_generic<vpsc::Variable, vpsc::Constraint, vpsc::Solver>(I, true, out, vo, co, idBase); break;
    case INC_SATISFY: run_generic<vpsc::Variable, vpsc::Constraint, vpsc::IncSolver>(I, false, out, vo, co, idBase); break;
    case INC_SOLVE: run_generic<vpsc::Variable, vpsc::Constraint, vpsc::IncSolver>(I, true, out, vo, co, idBase); break;
    case AV_SATISFY: run_generic<Avoid::Variable, Avoid::Constraint, Avoid::IncSolver>(I, false, out, vo, co, idBase); break;
    case AV_SOLVE: run_generic<Avoid::Variable, Avoid::Constraint, Avoid::IncSolver>(I, true, out, vo, co, idBase); break;
    }
}

static std::string run_json(const Inst &I, int kind, const Run &r) {
    JArr fl; for (size_t c = 0; c < r.flagged.size(); c++) if (r.flagged[c]) fl.i((long)c);
    return JObj().str("solver", kindName[kind]).raw("x", jnums(r.x)).raw("flagged", fl.done()).b("threw", r.threw).str("what", r.what).raw("instance", inst_json(I)).done();
}

// C01 oracle on one run.  feas: 1/0/-1 (only meaningful for inequality-only unscaled), -2 = not applicable
static void judge_c01(const Inst &I, const GenInfo &gi, int kind, const Run &r, int feas, CaseResult &res, const char *ctx = "") {
    bool isStatic = kind == STATIC_SATISFY || kind == STATIC_SOLVE;
    std::string pfx = std::string(ctx) + kindName[kind] + ":";
    if (r.threw) {
        if (isStatic && !gi.dag) { res.count("static_threw_on_cyclic_input"); return; }
        res.violate(pfx + "threw", run_json(I, kind, r));
        return;
    }
    size_t m = I.cs.size();
    long nfl = 0; double worst = 0; long worstc = -1; bool finite = true;
    for (double v : r.x) if (!std::isfinite(v)) finite = false;
    if (!finite) { res.violate(pfx + "non-finite-position", run_json(I, kind, r)); return; }
    for (size_t c = 0; c < m; c++) {
        if (r.flagged[c]) { nfl++; continue; }
        const Con &k = I.cs[c];
        double sl = I.s[k.l] * r.x[k.l] + k.g - I.s[k.r] * r.x[k.r];
        double bad = k.eq ? std::fabs(sl) : sl;
        if (bad > worst) { worst = bad; worstc = (long)c; }
    }
    res.maxi("max_residual_unflagged", worst);
    if (worst > 1e-6) {
        res.violate(pfx + "unflagged-constraint-violated", JObj().i("constraint", worstc).num("residual", worst).raw("run", run_json(I, kind, r)).done());
        return;
    }
    if (nfl) res.count("runs_with_flagged");
    if (feas == 1 && nfl > 0) res.violate(pfx + "flagged-but-feasible", run_json(I, kind, r));
    if (feas == 0 && nfl == 0) res.violate(pfx + "infeasible-but-nothing-flagged", run_json(I, kind, r));
    if (feas == 0 && nfl > 0) {
        res.count("infeasible_correctly_flagged");
        long onc = 0; for (size_t c = 0; c < m && m <= 200; c++) if (r.flagged[c] && qp::on_positive_cycle(I, c)) onc++;
        res.count("flagged_on_positive_cycle(observation)", onc); res.count("flagged_total(observation)", m <= 200 ? nfl : 0);
    }
}

static long count_tight(const Inst &I, const std::vector<double> &x) {
    long t = 0; for (auto &k : I.cs) if (std::fabs(I.s[k.l] * x[k.l] + k.g - I.s[k.r] * x[k.r]) < 1e-7) t++; return t;
}

static void case_instances(const Args &a, long idx, bool wantDesc, CaseResult &res) {
    Rng R(mix(mix(a.seed, 0xC01), (uint64_t)idx));
    Inst I; GenInfo gi = gen_instance(R, I);
    res.gen = gi.gen; res.digest = inst_digest(I);
    if (wantDesc) res.desc = inst_json(I);
    int feas = -2;
    if (!gi.hasEq && !gi.scaled) { feas = qp::feasibility(I, gi.exact); if (feas == -1) res.count("borderline_feasibility_not_judged"); }
    if (feas == 0) res.count("infeasible_instances"); if (feas == 1) res.count("feasible_instances");
    bool merged = false;
    for (int kind = 0; kind < NKINDS; kind++) {
        bool isStatic = kind <= STATIC_SOLVE;
        if (isStatic && !gi.dag) continue;     // static solver is specified for DAGs only
        Run r; run_kind(I, kind, r);
        res.count(std::string("runs.") + kindName[kind]);
        res.count("hook.splits", (long)r.splits); res.count("hook.merges", (long)r.merges); res.count("hook.unsat_marks", (long)r.unsat);
        judge_c01(I, gi, kind, r, feas == -1 ? -2 : feas, res);
        if (!r.threw && count_tight(I, r.x) > 0) merged = true;
    }
    res.nontrivial = merged;
    if (!I.cs.empty()) res.count("instances_with_constraints");
}

// ---- exhaustive tiny instances
static const double TG[4] = {-1, 0, 1, 2};
static long tiny_total() { // n=1:3, n=2: 9*(1+8+64+512), n=3: 27*(1+24+576+13824)
    return 3 + 9 * (1 + 8 + 64 + 512) + 27 * (1 + 24 + 576 + 13824);
}
static bool tiny_decode(long idx, Inst &I) {
    long t = idx;
    int n; long per;
    if (t < 3) { n = 1; per = 1; }
    else if ((t -= 3) < 9 * 585) { n = 2; per = 585; }
    else if ((t -= 9 * 585) < 27L * 14425) { n = 3; per = 14425; }
    else return false;
    long dcode = t / per, ccode = t % per;
    for (int i = 0; i < n; i++) { I.d.push_back((double)(dcode % 3)); dcode /= 3; I.w.push_back(1); I.s.push_back(1); }
    if (n == 1) return true;
    int pairs = n * (n - 1); long base = pairs * 4;
    int m = 0; long off = 0, pw = 1;
    for (m = 0; m <= 3; m++) { if (ccode < off + pw) break; off += pw; pw *= base; }
    long code = ccode - off;
    for (int c = 0; c < m; c++) {
        long e = code % base; code /= base;
        int pr = (int)(e / 4); double g = TG[e % 4];
        int l = pr / (n - 1), rr = pr % (n - 1); if (rr >= l) rr++;
        add_con(I, l, rr, g, false);
    }
    return true;
}
static void case_tiny(const Args &a, long idx, bool wantDesc, CaseResult &res, bool opt) {
    Inst I;
    if (!tiny_decode(idx, I)) { res.inconclusive = "index-out-of-range"; return; }
    GenInfo gi; gi.gen = "tiny-exhaustive"; gi.exact = true;
    // DAG test (tiny): topological check by Kahn
    { size_t n = I.n(); std::vector<int> indeg(n, 0); for (auto &k : I.cs) indeg[k.r]++; std::vector<char> done(n, 0); size_t rem = n; bool prog = true;
      std::vector<char> cdone(I.cs.size(), 0);
      while (prog) { prog = false; for (size_t v = 0; v < n; v++) if (!done[v] && indeg[v] == 0) { done[v] = 1; rem--; prog = true; for (size_t c = 0; c < I.cs.size(); c++) if (!cdone[c] && (size_t)I.cs[c].l == v) { cdone[c] = 1; indeg[I.cs[c].r]--; } } }
      gi.dag = rem == 0; }
    res.gen = gi.gen; res.digest = inst_digest(I);
    if (wantDesc) res.desc = inst_json(I);
    int feas = qp::feasibility(I, true);
    if (!opt) {
        bool merged = false;
        for (int kind = 0; kind < NKINDS; kind++) {
            if (kind <= STATIC_SOLVE && !gi.dag) continue;
            Run r; run_kind(I, kind, r);
            judge_c01(I, gi, kind, r, feas, res);
            if (!r.threw && count_tight(I, r.x) > 0) merged = true;
        }
        res.nontrivial = merged || feas == 0;
        if (feas == 0) res.count("infeasible_instances");
        return;
    }
    // optimality on tiny instances
    if (feas != 1) { res.inconclusive = ""; res.count("skipped_infeasible"); return; }
    qp::Result o = qp::solve_enum(I);
    if (!o.certified) { res.inconclusive = "oracle-enum-failed"; return; }
    // cross-validate Hildreth+polish against the enumeration
    qp::Result h = qp::solve(I);
    if (h.certified) { double dmax = 0; for (size_t i = 0; i < I.n(); i++) dmax = std::max(dmax, (double)std::fabs(h.x[i] - o.x[i])); res.maxi("oracle_cross_check_maxdiff", dmax); if (dmax > 1e-7) { res.inconclusive = "oracles-disagree"; return; } res.count("oracle_cross_checked"); }
    bool constrained = false; for (size_t i = 0; i < I.n(); i++) if (std::fabs((double)o.x[i] - I.d[i]) > 1e-9) constrained = true;
    res.nontrivial = constrained;
    for (int kind : {STATIC_SOLVE, INC_SOLVE, AV_SOLVE}) {
        if (kind == STATIC_SOLVE && !gi.dag) continue;
        Run r; run_kind(I, kind, r);
        if (r.threw) { res.violate(std::string(kindName[kind]) + ":threw", run_json(I, kind, r)); continue; }
        bool fl = false; for (char f : r.flagged) if (f) fl = true;
        if (fl) { res.count("flagged_on_feasible(C01 business)"); continue; }
        double dmax = 0; for (size_t i = 0; i < I.n(); i++) dmax = std::max(dmax, std::fabs(r.x[i] - (double)o.x[i]));
        res.maxi("max_distance_to_optimum", dmax);
        if (dmax > 1e-5 * 3) {  // scale = max(1, spread) <= 3 here
            JArr ox; for (auto v : o.x) ox.num((double)v);
            res.violate(std::string(kindName[kind]) + ":suboptimal", JObj().num("dist", dmax).raw("optimum", ox.done()).raw("run", run_json(I, kind, r)).done());
        }
    }
}

static bool degenerate_stall_signature(const Inst &I, const Run &r);
// ---------------------------------------------------------------- histories on a live IncSolver
template <class V, class C, class S>
static void history_generic(Rng &R, const char *which, bool wantDesc, CaseResult &res, bool judgeOpt) {
    int n = (int)R.ri(2, 14);
    bool integer = R.coin(0.5);
    Inst I;
    for (int i = 0; i < n; i++) { I.d.push_back(integer ? (double)R.ri(0, 15) : R.rd(0, 30)); I.w.push_back(R.coin(0.3) ? (integer ? (double)R.ri(1, 4) : R.rd(0.2, 5)) : 1.0); I.s.push_back(1.0); }
    bool allowCycles = !judgeOpt && R.coin(0.5);
    auto newcon = [&]() -> Con {
        int a = (int)R.ri(0, n - 1), b = (int)R.ri(0, n - 1); while (b == a) b = (int)R.ri(0, n - 1);
        if (!allowCycles && a > b) std::swap(a, b);
        double u = R.rd(); double g = u < 0.15 ? -(integer ? (double)R.ri(0, 3) : R.rd(0, 3)) : u < 0.25 ? 0.0 : (integer ? (double)R.ri(1, 5) : R.rd(0.01, 5));
        return Con{a, b, g, false};
    };
    int m0 = (int)R.ri(0, 2 * n);
    for (int c = 0; c < m0; c++) I.cs.push_back(newcon());
    std::string initialJson = inst_json(I);
    std::vector<V *> vs; std::vector<C *> cs;
    for (int i = 0; i < n; i++) vs.push_back(new V(i, I.d[i], I.w[i], 1.0));
    for (auto &k : I.cs) cs.push_back(new C(vs[k.l], vs[k.r], k.g, false));
    JArr ops;
    Digest D; D.s(which); D.i(inst_digest(I));
    GenInfo gi; gi.exact = integer; gi.gen = std::string("history.") + which;
    res.gen = gi.gen;
    int steps = (int)R.ri(3, 14);
    long solves = 0, changed = 0;
    {
        S solver(vs, cs);
        std::vector<double> prev;
        for (int st = 0; st <= steps && res.findings.empty(); st++) {
            int op = st == 0 ? 3 : (int)R.ri(0, 3);
            if (op == 0) {  // addConstraint(s)
                int k = (int)R.ri(1, 3);
                for (int j = 0; j < k; j++) { Con c = newcon(); I.cs.push_back(c); C *nc = new C(vs[c.l], vs[c.r], c.g, false); cs.push_back(nc); solver.addConstraint(nc); ops.raw(JObj().str("op", "addConstraint").i("l", c.l).i("r", c.r).num("gap", c.g).done()); D.i(c.l); D.i(c.r); D.d(c.g); }
                continue;
            }
            if (op == 1 && n >= 2 && R.coin(0.3)) {  // mean-preserving spread: two variables of equal weight move apart/together by the same amount
                int u = (int)R.ri(0, n - 1), v = (int)R.ri(0, n - 1); double k = integer ? (double)R.ri(1, 6) : R.rd(0.5, 6);
                if (u != v && I.w[u] == I.w[v]) { for (int q = 0; q < 2; q++) { int z = q ? v : u; double nd = I.d[z] + (q ? k : -k); I.d[z] = nd; vs[z]->desiredPosition = nd; ops.raw(JObj().str("op", "setDesired").i("v", z).num("d", nd).str("note", "mean-preserving spread").done()); D.i(z); D.d(nd); } }
                continue;
            }
            if (op == 1 && R.coin(0.25)) {  // change weights of a live solver's variables (what cola::GradientProjection does when it fixes / releases a node), possibly with a move
                int k = (int)R.ri(1, 2);
                for (int j = 0; j < k; j++) { int v = (int)R.ri(0, n - 1); static const double ws[] = {1, 1, 2, 10, 1000, 100000}; double nw = ws[R.ri(0, 5)]; I.w[v] = nw; vs[v]->weight = nw; ops.raw(JObj().str("op", "setWeight").i("v", v).num("w", nw).done()); D.i(100 + v); D.d(nw);
                    if (R.coin(0.5)) { double nd = integer ? (double)R.ri(0, 15) : R.rd(0, 30); I.d[v] = nd; vs[v]->desiredPosition = nd; ops.raw(JObj().str("op", "setDesired").i("v", v).num("d", nd).done()); D.i(v); D.d(nd); } }
                res.count("weight_changes_on_a_live_solver", k);
                continue;
            }
            if (op == 1) {  // move desired positions
                int k = (int)R.ri(1, n);
                for (int j = 0; j < k; j++) { int v = (int)R.ri(0, n - 1); double nd = integer ? (double)R.ri(0, 15) : R.rd(0, 30); I.d[v] = nd; vs[v]->desiredPosition = nd; ops.raw(JObj().str("op", "setDesired").i("v", v).num("d", nd).done()); D.i(v); D.d(nd); }
                continue;
            }
            bool doSolve = op == 3;
            ops.raw(JObj().str("op", doSolve ? "solve" : "satisfy").done()); D.i(op);
            Run r; r.flagged.assign(cs.size(), 0); r.active.assign(cs.size(), 0);
            set_stage(doSolve ? "history.solve" : "history.satisfy");
            try { r.ret = doSolve ? solver.solve() : solver.satisfy(); }
            catch (char *) { r.threw = true; r.what = "char*"; }
            catch (const char *) { r.threw = true; r.what = "char*"; }
            catch (vpsc::UnsatisfiedConstraint &) { r.threw = true; r.what = "UnsatisfiedConstraint"; }
            catch (Avoid::UnsatisfiedConstraint &) { r.threw = true; r.what = "UnsatisfiedConstraint"; }
            r.x.resize(n); for (int i = 0; i < n; i++) r.x[i] = vs[i]->finalPosition;
            for (size_t c = 0; c < cs.size(); c++) { r.flagged[c] = cs[c]->unsatisfiable; r.active[c] = cs[c]->active; }
            solves++;
            int kind = std::string(which) == "avoid" ? (doSolve ? AV_SOLVE : AV_SATISFY) : (doSolve ? INC_SOLVE : INC_SATISFY);
            if (!judgeOpt) {
                int feas = qp::feasibility(I, gi.exact);
                if (feas == 0) res.count("history_points_infeasible"); else if (feas == 1) res.count("history_points_feasible");
                size_t before = res.findings.size();
                judge_c01(I, gi, kind, r, feas == -1 ? -2 : feas, res, "history:");
                if (res.findings.size() > before) { res.findings.back().witness = JObj().raw("ops", ops.done()).raw("at", res.findings.back().witness).done(); }
            } else if (doSolve && !r.threw) {
                bool fl = false; for (char f : r.flagged) if (f) fl = true;
                if (!fl) {
                    qp::Result o = qp::solve(I);
                    if (!o.certified) { res.count("oracle_uncertified_points"); }
                    else {
                        double scale = 1; for (double v : I.d) scale = std::max(scale, std::fabs(v)); for (auto &k : I.cs) scale = std::max(scale, std::fabs(k.g));
                        double dmax = 0; for (int i = 0; i < n; i++) dmax = std::max(dmax, std::fabs(r.x[i] - (double)o.x[i]));
                        res.maxi("max_distance_to_optimum_rel", dmax / scale); res.count("resolve_points_judged");
                        if (dmax > 1e-5 * scale) {
                            // signature of the known degenerate stall (F3): feasible, suboptimal, and a tight inactive constraint inside one block
                            JArr ox; for (auto v : o.x) ox.num((double)v);
                            bool stall = integer && degenerate_stall_signature(I, r);
                            res.violate(std::string(kindName[kind]) + (stall ? ":resolve-degenerate-stall" : ":resolve-suboptimal"), JObj().num("dist", dmax).num("scale", scale).raw("optimum", ox.done()).raw("ops", ops.done()).raw("run", run_json(I, kind, r)).done());
                        }
                    }
                } else res.count("resolve_points_flagged(not judged)");
            }
            if (!prev.empty()) { for (int i = 0; i < n; i++) if (std::fabs(prev[i] - r.x[i]) > 1e-9) { changed++; break; } }
            prev = r.x;
        }
    }
    for (auto c : cs) delete c; for (auto v : vs) delete v;
    res.count("history_solves", solves);
    res.nontrivial = changed > 0;
    res.digest = D.h;
    if (wantDesc || !res.findings.empty()) res.desc = JObj().str("solver", which).raw("initial", initialJson).raw("ops", ops.done()).done();
}
static void case_histories(const Args &a, long idx, bool wantDesc, CaseResult &res, bool judgeOpt) {
    Rng R(mix(mix(a.seed, judgeOpt ? 0xC02B : 0xC01B), (uint64_t)idx));
    if (idx % 3 == 2) history_generic<Avoid::Variable, Avoid::Constraint, Avoid::IncSolver>(R, "avoid", wantDesc, res, judgeOpt);
    else history_generic<vpsc::Variable, vpsc::Constraint, vpsc::IncSolver>(R, "vpsc", wantDesc, res, judgeOpt);
}

// ---------------------------------------------------------------- C02 optimality on random instances
// signature predicate for the known finding F3 (degenerate stall): see DESIGN.md section 4
static bool degenerate_stall_signature(const Inst &I, const Run &r) {
    // blocks of the returned active forest (union-find over active constraints)
    size_t n = I.n(); std::vector<int> p(n); for (size_t i = 0; i < n; i++) p[i] = (int)i;
    std::function<int(int)> find = [&](int v) { while (p[v] != v) { p[v] = p[p[v]]; v = p[v]; } return v; };
    for (size_t c = 0; c < I.cs.size(); c++) if (r.active[c]) p[find(I.cs[c].l)] = find(I.cs[c].r);
    for (size_t c = 0; c < I.cs.size(); c++) {
        if (r.active[c]) continue;
        const Con &k = I.cs[c];
        double sl = I.s[k.l] * r.x[k.l] + k.g - I.s[k.r] * r.x[k.r];
        if (std::fabs(sl) < 1e-9 && find(k.l) == find(k.r)) return true;
    }
    return false;
}

static void judge_opt(const Inst &I, const GenInfo &gi, int kind, const Run &r, const qp::Result &o, double scale, CaseResult &res, const char *ctx = "") {
    std::string pfx = std::string(ctx) + kindName[kind] + ":";
    if (r.threw) { res.violate(pfx + "threw", run_json(I, kind, r)); return; }
    double dmax = 0; for (size_t i = 0; i < I.n(); i++) dmax = std::max(dmax, std::fabs(r.x[i] - (double)o.x[i]));
    res.maxi("max_distance_to_optimum_rel", dmax / scale);
    res.count("solves_judged");
    res.count("hook.splits", (long)r.splits); res.count("hook.merges", (long)r.merges);
    if (r.refineExhausted) res.count("hook.static_refine_cap_exhausted");
    if (dmax > 1e-5 * scale) {
        double f = 0; for (size_t i = 0; i < I.n(); i++) f += I.w[i] * (r.x[i] - I.d[i]) * (r.x[i] - I.d[i]);
        bool feasible = true; for (auto &k : I.cs) { double sl = I.s[k.l] * r.x[k.l] + k.g - I.s[k.r] * r.x[k.r]; if (sl > 1e-6 || (k.eq && sl < -1e-6)) feasible = false; }
        JArr ox; for (auto v : o.x) ox.num((double)v);
        std::string key = "suboptimal";
        if (!feasible) key = "infeasible-result";
        else if (gi.exact && (kind == INC_SOLVE || kind == AV_SOLVE) && degenerate_stall_signature(I, r)) key = "degenerate-stall";
        else if (kind == STATIC_SOLVE && r.refineExhausted > 0) key = "refine-cap-exhausted";
        // the solvers accept Lagrange multipliers down to -1e-4 as non-negative: a stop that costs less than 1e-7 of the optimum is that tolerance
        else if (f - (double)o.f <= 1e-7 * (1 + (double)o.f)) key = "suboptimal(within-the-solver's-multiplier-tolerance)";
        res.violate(pfx + key, JObj().num("dist", dmax).num("scale", scale).num("cost", f).num("optimal_cost", (double)o.f).str("oracle_route", o.route).raw("optimum", ox.done()).raw("run", run_json(I, kind, r)).done());
    }
}
static double inst_scale(const Inst &I) {
    double lo = 1e300, hi = -1e300, g = 0; for (double v : I.d) { lo = std::min(lo, v); hi = std::max(hi, v); } for (auto &k : I.cs) g = std::max(g, std::fabs(k.g));
    return std::max(1.0, std::max(I.n() ? hi - lo : 0.0, g));
}

static void case_opt(const Args &a, long idx, bool wantDesc, CaseResult &res, bool perm) {
    Rng R(mix(mix(a.seed, perm ? 0xC02A : 0xC02), (uint64_t)idx));
    Inst I; GenInfo gi;
    static const long gens[] = {0, 1, 2, 4, 5, 6, 7, 8, 9, 10, 7};
    gi = gen_instance(R, I, gens[R.ri(0, 10)]);
    if (perm && I.n() > 60) { I = Inst(); gi = gen_instance(R, I, 9); }
    res.gen = gi.gen + (gi.exact ? "/integer" : "/generic"); res.digest = inst_digest(I);
    if (wantDesc) res.desc = inst_json(I);
    // only instances on which nothing is flagged are judged (the property's premise)
    Run inc; run_kind(I, INC_SOLVE, inc);
    if (inc.threw) { res.inconclusive = "inc-threw (C01 business)"; return; }
    for (char f : inc.flagged) if (f) { res.count("skipped_flagged_instances"); res.inconclusive = ""; return; }
    set_stage("qp-oracle(reference solver of the harness)");
    qp::Result o = (I.n() <= 6 && I.cs.size() <= 8) ? qp::solve_enum(I) : qp::solve(I, I.n() > 100 ? 60000 : 200000);
    if (!o.certified) { res.inconclusive = "oracle-not-certified"; return; }
    res.count(std::string("oracle_route.") + o.route);
    double scale = inst_scale(I);
    // non-trivial: optimum differs from unconstrained optimum and from the satisfy() point
    bool constrained = false; for (size_t i = 0; i < I.n(); i++) if (std::fabs((double)o.x[i] - I.d[i]) > 1e-7 * scale) constrained = true;
    Run sat; run_kind(I, INC_SATISFY, sat);
    bool refined = false; if (!sat.threw) for (size_t i = 0; i < I.n(); i++) if (std::fabs((double)o.x[i] - sat.x[i]) > 1e-7 * scale) refined = true;
    if (constrained) res.count("optimum_constrained"); if (refined) res.count("optimum_differs_from_satisfy");
    res.nontrivial = constrained && refined;
    if (!perm) {
        judge_opt(I, gi, INC_SOLVE, inc, o, scale, res);
        { Run r; run_kind(I, AV_SOLVE, r); bool fl = false; for (char f : r.flagged) if (f) fl = true; if (!fl) judge_opt(I, gi, AV_SOLVE, r, o, scale, res); }
        if (gi.dag) { Run r; run_kind(I, STATIC_SOLVE, r); judge_opt(I, gi, STATIC_SOLVE, r, o, scale, res); }
        return;
    }
    // order independence: permute variables, constraints, ids; each must be within tolerance of the same certified optimum
    int nperm = 4;
    for (int p = 0; p < nperm; p++) {
        std::vector<int> vo(I.n()), co(I.cs.size());
        for (size_t i = 0; i < vo.size(); i++) vo[i] = (int)i; for (size_t i = 0; i < co.size(); i++) co[i] = (int)i;
        if (p == 0) { std::reverse(vo.begin(), vo.end()); std::reverse(co.begin(), co.end()); } else { R.shuffle(vo); R.shuffle(co); }
        for (int kind : {INC_SOLVE, AV_SOLVE, STATIC_SOLVE}) {
            if (kind == STATIC_SOLVE && !gi.dag) continue;
            Run r; run_kind(I, kind, r, &vo, &co, (int)R.ri(0, 1000));
            bool fl = false; for (char f : r.flagged) if (f) fl = true;
            if (fl) { res.count("permuted_run_flagged(not judged)"); continue; }
            res.count("permuted_runs");
            judge_opt(I, gi, kind, r, o, scale, res, "perm:");
        }
    }
}

// ---------------------------------------------------------------- pinned regression instances
static void case_regress(const Args &a, long idx, bool wantDesc, CaseResult &res) {
    (void)a;
    Inst I; GenInfo gi; gi.gen = "regress";
    if (idx == 0) {
        // F2: static solver with scaled variables (Blocks::split copied posn across blocks of different scale)
        gi.dag = true; gi.scaled = true; gi.exact = true; gi.gen = "regress.F2-static-scaled";
        I.d = {18, 10, 2, 11, 2}; I.w = {1, 1, 1, 1, 1}; I.s = {1, 1, 3, 2, 1};
        I.cs = {{0, 1, 1, false}, {1, 4, 5, false}, {0, 3, 1, false}, {0, 4, 2, false}, {2, 3, 6, false}, {2, 3, 4, false}, {2, 4, 4, false},
                {1, 2, -4, false}, {2, 4, -3, false}, {2, 3, 5, false}, {0, 3, 4, false}, {3, 4, 2, false}};
    } else { res.inconclusive = "index-out-of-range"; return; }
    res.gen = gi.gen; res.digest = inst_digest(I); res.nontrivial = true;
    if (wantDesc) res.desc = inst_json(I);
    qp::Result o = qp::solve_enum(I);
    if (!o.certified) { res.inconclusive = "oracle-not-certified"; return; }
    double scale = inst_scale(I);
    for (int kind : {STATIC_SOLVE, INC_SOLVE, AV_SOLVE}) { Run r; run_kind(I, kind, r); bool fl = false; for (char f : r.flagged) if (f) fl = true; if (!fl) judge_opt(I, gi, kind, r, o, scale, res, "regress:"); }
}

int main(int argc, char **argv) {
    return harness_main(argc, argv, "c01_vpsc", [](const Args &a, long idx, bool wantDesc, CaseResult &res) {
        if (a.mode == "instances") case_instances(a, idx, wantDesc, res);
        else if (a.mode == "tiny") case_tiny(a, idx, wantDesc, res, false);
        else if (a.mode == "tinyopt") case_tiny(a, idx, wantDesc, res, true);
        else if (a.mode == "histories") case_histories(a, idx, wantDesc, res, false);
        else if (a.mode == "resolve") case_histories(a, idx, wantDesc, res, true);
        else if (a.mode == "opt") case_opt(a, idx, wantDesc, res, false);
        else if (a.mode == "perm") case_opt(a, idx, wantDesc, res, true);
        else if (a.mode == "regress") case_regress(a, idx, wantDesc, res);
        else res.inconclusive = "unknown-mode";
    });
}
