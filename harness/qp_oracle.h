// Independent oracles for separation-constraint problems
//     min  sum_i w_i (x_i - d_i)^2   s.t.  s_l x_l + g <= s_r x_r   (or == for equalities)
// None of this shares logic with VPSC's block merging/splitting:
//   * feasibility of inequality-only unscaled systems by Bellman-Ford longest paths
//   * Hildreth's dual coordinate ascent (long double) + exact KKT polish on the
//     guessed active set (Gaussian elimination) => certified optimum
//   * exhaustive active-set enumeration for tiny instances
#ifndef VERIF_QP_ORACLE_H
#define VERIF_QP_ORACLE_H
#include <ctime>
#include <vector>
#include <cmath>
#include <algorithm>
#include <limits>

namespace qp {
typedef long double LD;
struct Con { int l, r; double g; bool eq; };
struct Inst {
    std::vector<double> d, w, s;
    std::vector<Con> cs;
    size_t n() const { return d.size(); }
};

inline LD cval(const Inst &I, const Con &k, const std::vector<LD> &x) {  // <= 0 when satisfied
    return (LD)I.s[k.l] * x[k.l] + (LD)k.g - (LD)I.s[k.r] * x[k.r];
}
inline LD cost(const Inst &I, const std::vector<LD> &x) {
    LD f = 0; for (size_t i = 0; i < I.n(); i++) f += (LD)I.w[i] * (x[i] - I.d[i]) * (x[i] - I.d[i]); return f;
}
inline LD maxviol(const Inst &I, const std::vector<LD> &x) {
    LD v = 0; for (auto &k : I.cs) { LD c = cval(I, k, x); if (k.eq) c = std::fabs(c); if (c > v) v = c; } return v;
}

// ---- feasibility of an unscaled system by longest-path Bellman-Ford.
// delta shifts every gap (delta<0 relaxes, >0 tightens); eps is the comparison slack.
inline bool bf_feasible(const Inst &I, double delta, double eps, const std::vector<char> *skip = nullptr) {
    size_t n = I.n();
    std::vector<LD> p(n, 0);
    for (size_t it = 0; it <= n + 1; it++) {
        bool ch = false;
        for (size_t c = 0; c < I.cs.size(); c++) {
            if (skip && (*skip)[c]) continue;
            const Con &k = I.cs[c];
            if (k.l == k.r) { if ((LD)k.g + delta > eps) return false; if (k.eq && (LD)k.g - delta < -eps) return false; continue; }
            LD g = (LD)k.g + delta;
            if (p[k.l] + g > p[k.r] + eps) { p[k.r] = p[k.l] + g; ch = true; }
            if (k.eq) { LD g2 = -(LD)k.g + delta; if (p[k.r] + g2 > p[k.l] + eps) { p[k.l] = p[k.r] + g2; ch = true; } }
        }
        if (!ch) return true;
    }
    return false;
}
// 1 feasible, 0 infeasible, -1 borderline (cannot be decided robustly in floating point)
inline int feasibility(const Inst &I, bool exactData, const std::vector<char> *skip = nullptr) {
    bool relaxed = bf_feasible(I, -1e-7, 0, skip), tight = bf_feasible(I, 1e-7, 0, skip);
    if (relaxed == tight) return relaxed ? 1 : 0;
    if (exactData) return bf_feasible(I, 0, 0, skip) ? 1 : 0;
    return -1;
}
// is constraint c on a positive cycle?  (longest path r ~> l plus gap > 0)
inline bool on_positive_cycle(const Inst &I, size_t c) {
    size_t n = I.n(); const Con &kc = I.cs[c];
    const LD NEG = -std::numeric_limits<LD>::infinity();
    std::vector<LD> p(n, NEG); p[kc.r] = 0;
    for (size_t it = 0; it <= n; it++) {
        bool ch = false;
        for (auto &k : I.cs) {
            if (p[k.l] != NEG && p[k.l] + k.g > p[k.r] + 1e-12) { p[k.r] = p[k.l] + k.g; ch = true; }
            if (k.eq && p[k.r] != NEG && p[k.r] - k.g > p[k.l] + 1e-12) { p[k.l] = p[k.r] - k.g; ch = true; }
        }
        if (!ch) break;
        if (it == n) return true;  // some positive cycle reachable from r: count it
    }
    return p[kc.l] != NEG && p[kc.l] + kc.g > 1e-9;
}

// ---- dense solve of M y = b (M k x k, symmetric PSD, possibly singular): Gaussian elimination
// with full pivoting; dependent rows get y=0.  returns rank.
inline int solve_psd(std::vector<std::vector<LD>> M, std::vector<LD> b, std::vector<LD> &y) {
    int k = (int)b.size(); y.assign(k, 0);
    std::vector<int> colperm(k); for (int i = 0; i < k; i++) colperm[i] = i;
    int rank = 0;
    LD scale = 0; for (int i = 0; i < k; i++) scale = std::max(scale, std::fabs(M[i][i]));
    if (scale == 0) scale = 1;
    for (int col = 0; col < k; col++) {
        int pr = -1, pc = -1; LD best = 1e-13L * scale;
        for (int i = rank; i < k; i++) for (int j = rank; j < k; j++) if (std::fabs(M[i][j]) > best) { best = std::fabs(M[i][j]); pr = i; pc = j; }
        if (pr < 0) break;
        std::swap(M[pr], M[rank]); std::swap(b[pr], b[rank]);
        for (int i = 0; i < k; i++) std::swap(M[i][pc], M[i][rank]);
        std::swap(colperm[pc], colperm[rank]);
        for (int i = 0; i < k; i++) if (i != rank) {
            LD f = M[i][rank] / M[rank][rank]; if (f == 0) continue;
            for (int j = rank; j < k; j++) M[i][j] -= f * M[rank][j];
            b[i] -= f * b[rank];
        }
        rank++;
    }
    for (int i = 0; i < rank; i++) y[colperm[i]] = b[i] / M[i][i];
    return rank;
}

// equality-constrained optimum on active set A (indices into I.cs): returns x and multipliers
inline void solve_active(const Inst &I, const std::vector<int> &A, std::vector<LD> &x, std::vector<LD> &lam) {
    // x = d - (1/(2w)) A^T lam ;  A x = -g  =>  (A W A^T) lam = 2 (A d + g)   with W = diag(1/w)
    int k = (int)A.size();
    std::vector<std::vector<LD>> M(k, std::vector<LD>(k, 0));
    std::vector<LD> b(k, 0);
    for (int a = 0; a < k; a++) {
        const Con &ka = I.cs[A[a]];
        b[a] = 2 * ((LD)I.s[ka.l] * I.d[ka.l] - (LD)I.s[ka.r] * I.d[ka.r] + ka.g);
        for (int c = 0; c < k; c++) {
            const Con &kc = I.cs[A[c]];
            LD v = 0;
            // row a: +s_l at l, -s_r at r
            int ia[2] = {ka.l, ka.r}; LD va[2] = {(LD)I.s[ka.l], -(LD)I.s[ka.r]};
            int ic[2] = {kc.l, kc.r}; LD vc[2] = {(LD)I.s[kc.l], -(LD)I.s[kc.r]};
            for (int p = 0; p < 2; p++) for (int q = 0; q < 2; q++) if (ia[p] == ic[q]) v += va[p] * vc[q] / I.w[ia[p]];
            M[a][c] = v;
        }
    }
    solve_psd(M, b, lam);
    x.assign(I.n(), 0);
    for (size_t i = 0; i < I.n(); i++) x[i] = I.d[i];
    for (int a = 0; a < k; a++) {
        const Con &ka = I.cs[A[a]];
        x[ka.l] -= lam[a] * I.s[ka.l] / (2 * (LD)I.w[ka.l]);
        x[ka.r] += lam[a] * I.s[ka.r] / (2 * (LD)I.w[ka.r]);
    }
}

struct Result {
    bool certified = false;
    const char *route = "none";
    std::vector<LD> x;        // certified optimum (if certified)
    LD f = 0, dual = 0, viol = 0, minlam = 0;
    long sweeps = 0;
};

inline bool kkt_ok(const Inst &I, const std::vector<int> &A, const std::vector<LD> &x, const std::vector<LD> &lam, LD scale, LD *viol, LD *minlam) {
    LD v = maxviol(I, x); LD ml = 0;
    LD comp = 0;  // complementarity: a constraint with a non-zero multiplier must be tight
    for (size_t a = 0; a < A.size(); a++) {
        if (!I.cs[A[a]].eq && lam[a] < ml) ml = lam[a];
        LD c = std::fabs(cval(I, I.cs[A[a]], x));
        if (std::fabs(lam[a]) > 1e-11L * scale && c > comp) comp = c;
    }
    if (viol) *viol = v; if (minlam) *minlam = ml;
    return v <= 1e-11L * scale && ml >= -1e-11L * scale && comp <= 1e-11L * scale;
}

inline Result solve(const Inst &I, long maxSweeps = 200000) {
    Result R;
    size_t n = I.n(), m = I.cs.size();
    LD scale = 1;
    for (size_t i = 0; i < n; i++) scale = std::max(scale, (LD)std::fabs(I.d[i]));
    for (auto &k : I.cs) scale = std::max(scale, (LD)std::fabs(k.g));
    std::vector<LD> lam(m, 0), x(n);
    for (size_t i = 0; i < n; i++) x[i] = I.d[i];
    std::vector<LD> den(m);
    for (size_t c = 0; c < m; c++) { const Con &k = I.cs[c]; LD sl = I.s[k.l], sr = I.s[k.r];
        den[c] = (k.l == k.r) ? 0 : sl * sl / (2 * (LD)I.w[k.l]) + sr * sr / (2 * (LD)I.w[k.r]); }
    auto try_polish = [&]() -> bool {
        std::vector<int> A;
        for (size_t c = 0; c < m; c++) if (den[c] > 0 && (I.cs[c].eq || lam[c] > 1e-9L * scale)) A.push_back((int)c);
        if (A.size() > 400) return false;
        std::vector<LD> xa, la;
        solve_active(I, A, xa, la);
        LD v, ml;
        if (kkt_ok(I, A, xa, la, scale, &v, &ml)) {
            R.certified = true; R.route = "kkt"; R.x = xa; R.f = cost(I, xa); R.viol = v; R.minlam = ml;
            // dual value = f at KKT point (complementarity holds by construction)
            R.dual = R.f;
            return true;
        }
        return false;
    };
    long sweep = 0; long nextPolish = 50;
    // CPU budget: a reference solver that takes longer than this gives up (the case is then inconclusive, never a verdict)
    const clock_t t0 = clock(); const double budgetSeconds = 5.0;
    for (; sweep < maxSweeps; sweep++) {
        if ((sweep & 63) == 63 && (double)(clock() - t0) / CLOCKS_PER_SEC > budgetSeconds) { R.sweeps = sweep; return R; }
        LD maxch = 0;
        for (size_t c = 0; c < m; c++) {
            if (den[c] <= 0) continue;
            const Con &k = I.cs[c];
            LD viol = cval(I, k, x);
            LD nl = lam[c] + viol / den[c];
            if (!k.eq && nl < 0) nl = 0;
            LD dl = nl - lam[c];
            if (dl != 0) { lam[c] = nl; x[k.l] -= dl * I.s[k.l] / (2 * (LD)I.w[k.l]); x[k.r] += dl * I.s[k.r] / (2 * (LD)I.w[k.r]); }
            maxch = std::max(maxch, std::fabs(dl));
        }
        if (sweep + 1 == nextPolish || maxch < 1e-15L * scale) {
            if (try_polish()) { R.sweeps = sweep + 1; return R; }
            if (nextPolish < (1L << 60)) nextPolish = nextPolish * 3;
            if (maxch < 1e-16L * scale) break;
        }
    }
    R.sweeps = sweep;
    // fallback certificate: Hildreth iterate itself (weak duality + strong convexity)
    // recompute x from lam to avoid drift
    for (size_t i = 0; i < n; i++) x[i] = I.d[i];
    for (size_t c = 0; c < m; c++) { const Con &k = I.cs[c]; if (den[c] <= 0) continue; x[k.l] -= lam[c] * I.s[k.l] / (2 * (LD)I.w[k.l]); x[k.r] += lam[c] * I.s[k.r] / (2 * (LD)I.w[k.r]); }
    LD L = cost(I, x); LD lamsum = 0;
    for (size_t c = 0; c < m; c++) { L += lam[c] * cval(I, I.cs[c], x); lamsum += std::fabs(lam[c]); }
    R.dual = L; R.viol = maxviol(I, x); R.f = cost(I, x); R.x = x;
    // f* <= f(x) + lamsum*viol (first-order perturbation bound, doubled for safety)
    LD gap = R.f + 2 * lamsum * R.viol - R.dual;
    LD wmin = 1e300; for (size_t i = 0; i < n; i++) wmin = std::min(wmin, (LD)I.w[i]);
    if (R.viol <= 1e-10L * scale && gap >= -1e-12L * (1 + R.f) && std::sqrt(std::max((LD)0, gap) / wmin) <= 1e-7L * scale) {
        R.certified = true; R.route = "hildreth";
    }
    return R;
}

// exhaustive: enumerate all subsets of inequality constraints as active sets (m small)
inline Result solve_enum(const Inst &I) {
    Result R; size_t m = I.cs.size();
    LD best = std::numeric_limits<LD>::infinity();
    std::vector<int> eqs, ineqs;
    for (size_t c = 0; c < m; c++) { if (I.cs[c].l == I.cs[c].r) continue; (I.cs[c].eq ? eqs : ineqs).push_back((int)c); }
    size_t k = ineqs.size();
    if (k > 16) return R;
    for (unsigned long mask = 0; mask < (1UL << k); mask++) {
        std::vector<int> A = eqs;
        for (size_t j = 0; j < k; j++) if (mask >> j & 1) A.push_back(ineqs[j]);
        std::vector<LD> x, la;
        solve_active(I, A, x, la);
        if (maxviol(I, x) > 1e-12L) continue;
        LD f = cost(I, x);
        if (f < best) { best = f; R.x = x; R.f = f; R.certified = true; R.route = "enum"; }
    }
    R.dual = R.f;
    return R;
}
} // namespace qp
#endif
