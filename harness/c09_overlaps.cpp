// C09: vpsc::removeoverlaps and generateX/YConstraints.
// Oracle: own interval arithmetic on the public getters; longest paths in the
// generated constraint DAG (quantifies over ALL placements satisfying the constraints).
#include "common.h"
#include <set>
#include "libvpsc/rectangle.h"
#include "libvpsc/variable.h"
#include "libvpsc/constraint.h"

using namespace vf;
using vpsc::Rectangle; using vpsc::Rectangles;

struct R4 { double x, y, w, h; };

static std::string rects_json(const std::vector<R4> &rs) {
    JArr a; for (auto &r : rs) a.raw(JArr().num(r.x).num(r.y).num(r.w).num(r.h).done()); return a.done();
}

static void gen_rects(Rng &R, std::vector<R4> &rs, std::string &gen, int maxn) {
    int kind = (int)R.ri(0, 7);
    static const char *names[] = {"continuous", "integer-grid", "identical-copies", "thin", "nested", "chain", "dense-large", "mixed"};
    gen = names[kind];
    double u = R.rd();
    int n = u < 0.55 ? (int)R.ri(2, 15) : u < 0.85 ? (int)R.ri(16, 60) : u < 0.97 ? (int)R.ri(61, 150) : (int)R.ri(151, 400);
    if (kind == 6) n = (int)R.ri(80, 400);
    n = std::min(n, maxn);
    double span = R.coin(0.33) ? 30 : R.coin() ? 100 : 400;
    for (int i = 0; i < n; i++) {
        R4 r;
        switch (kind) {
        case 1: r.w = (double)R.ri(1, 10); r.h = (double)R.ri(1, 10); r.x = (double)R.ri(0, (long)span); r.y = (double)R.ri(0, (long)span); break;
        case 2: if (i > 0 && R.coin(0.6)) { r = rs[R.ri(0, i - 1)]; } else { r.w = (double)R.ri(2, 12); r.h = (double)R.ri(2, 12); r.x = (double)R.ri(0, (long)span); r.y = (double)R.ri(0, (long)span); } break;
        case 3: r.w = R.coin(0.5) ? 1e-3 : R.rd(0.5, 30); r.h = R.coin(0.3) ? 1e-3 : R.rd(0.5, 30); r.x = R.rd(0, span); r.y = R.rd(0, span); break;
        case 4: if (i > 0 && R.coin(0.7)) { const R4 &p = rs[R.ri(0, i - 1)]; r.w = p.w * R.rd(0.2, 0.9); r.h = p.h * R.rd(0.2, 0.9); r.x = p.x + R.rd(0, p.w - r.w); r.y = p.y + R.rd(0, p.h - r.h); } else { r.w = R.rd(10, 60); r.h = R.rd(10, 60); r.x = R.rd(0, span); r.y = R.rd(0, span); } break;
        case 5: r.w = R.rd(4, 20); r.h = R.rd(4, 20); if (i == 0) { r.x = 0; r.y = 0; } else { const R4 &p = rs[i - 1]; r.x = p.x + p.w * R.rd(0.3, 0.9); r.y = p.y + R.rd(-2, 2); } break;
        case 6: r.w = R.rd(0.5, 30); r.h = R.rd(0.5, 30); r.x = R.rd(0, 120); r.y = R.rd(0, 120); break;
        default: r.w = R.coin(0.5) ? (double)R.ri(1, 20) : R.rd(0.5, 30); r.h = R.coin(0.5) ? (double)R.ri(1, 20) : R.rd(0.5, 30); r.x = R.coin(0.5) ? (double)R.ri(0, (long)span) : R.rd(0, span); r.y = R.coin(0.5) ? (double)R.ri(0, (long)span) : R.rd(0, span); break;
        }
        rs.push_back(r);
    }
}

static long count_overlaps(const Rectangles &rs, double tol, double *worst = nullptr, int *wi = nullptr, int *wj = nullptr) {
    long c = 0; size_t n = rs.size();
    for (size_t i = 0; i < n; i++) for (size_t j = i + 1; j < n; j++) {
        double ox = std::min(rs[i]->getMaxX(), rs[j]->getMaxX()) - std::max(rs[i]->getMinX(), rs[j]->getMinX());
        double oy = std::min(rs[i]->getMaxY(), rs[j]->getMaxY()) - std::max(rs[i]->getMinY(), rs[j]->getMinY());
        if (ox > tol && oy > tol) { c++; if (worst && std::min(ox, oy) > *worst) { *worst = std::min(ox, oy); if (wi) *wi = (int)i; if (wj) *wj = (int)j; } }
    }
    return c;
}

struct BorderGuard { ~BorderGuard() { Rectangle::setXBorder(0); Rectangle::setYBorder(0); } };

static void case_sets(const Args &a, long idx, bool wantDesc, CaseResult &res) {
    Rng R(mix(mix(a.seed, 0xC09), (uint64_t)idx));
    std::vector<R4> in; std::string gen; gen_rects(R, in, gen, 400);
    int n = (int)in.size();
    bool third = R.coin();
    std::set<unsigned> fixed;
    int fmode = (int)R.ri(0, 3);   // 0 none (1-arg overload), 1 none (3-arg), 2 singleton, 3 several
    if (fmode == 2) fixed.insert((unsigned)R.ri(0, n - 1));
    double xb = R.coin(0.33) ? 2.5 : R.coin(0.2) ? 1.5 : 0, yb = R.coin(0.33) ? 1.5 : R.coin(0.2) ? 2.5 : 0;
    if (fmode == 3) {   // several fixed rectangles, pairwise clear of each other (two overlapping fixed rectangles cannot both stay)
        int k = (int)R.ri(2, std::max(2, std::min(5, n / 3)));
        for (int t = 0; t < 40 && (int)fixed.size() < k; t++) {
            unsigned c = (unsigned)R.ri(0, n - 1); bool ok = true;
            for (unsigned f : fixed) {
                double ox = std::min(in[c].x + in[c].w, in[f].x + in[f].w) - std::max(in[c].x, in[f].x) + 2 * xb + 1;
                double oy = std::min(in[c].y + in[c].h, in[f].y + in[f].h) - std::max(in[c].y, in[f].y) + 2 * yb + 1;
                if (ox > 0 && oy > 0) ok = false;
            }
            if (ok) fixed.insert(c);
        }
    }
    Digest D; for (auto &r : in) { D.d(r.x); D.d(r.y); D.d(r.w); D.d(r.h); } D.i(third); D.i(fmode); for (unsigned f : fixed) D.i(f); D.d(xb); D.d(yb);
    res.digest = D.h; res.gen = gen;
    JArr fj; for (unsigned f : fixed) fj.i(f);
    std::string desc = JObj().raw("rects_x_y_w_h", rects_json(in)).raw("fixed", fj.done()).b("thirdPass", third).str("overload", fmode == 0 ? "removeoverlaps(rs)" : "removeoverlaps(rs,fixed,thirdPass)").num("xBorder", xb).num("yBorder", yb).done();
    if (wantDesc) res.desc = desc;
    BorderGuard bg;
    Rectangle::setXBorder(xb); Rectangle::setYBorder(yb);
    Rectangles rs; for (auto &r : in) rs.push_back(new Rectangle(r.x, r.x + r.w, r.y, r.y + r.h));
    std::vector<double> w0(n), h0(n), cx0(n), cy0(n);
    for (int i = 0; i < n; i++) { w0[i] = rs[i]->width(); h0[i] = rs[i]->height(); cx0[i] = rs[i]->getCentreX(); cy0[i] = rs[i]->getCentreY(); }
    long before = count_overlaps(rs, 1e-6);
    res.nontrivial = before > 0;
    res.count("initially_overlapping_pairs", before);
    set_stage("removeoverlaps");
    int efd = dup(2); int nul = open("/dev/null", O_WRONLY); dup2(nul, 2); close(nul);
    try {
        if (fmode == 0) vpsc::removeoverlaps(rs); else vpsc::removeoverlaps(rs, fixed, third);
    } catch (...) { dup2(efd, 2); close(efd); for (auto r : rs) delete r; throw; }
    dup2(efd, 2); close(efd);
    // (c) borders restored
    if (Rectangle::xBorder != xb || Rectangle::yBorder != yb)
        res.violate("borders-not-restored", JObj().num("xBorder_after", Rectangle::xBorder).num("yBorder_after", Rectangle::yBorder).raw("case", desc).done());
    Rectangle::setXBorder(xb); Rectangle::setYBorder(yb);
    // (a) no overlap
    double worst = 0; int wi = -1, wj = -1;
    long after = count_overlaps(rs, 1e-6, &worst, &wi, &wj);
    res.maxi("worst_remaining_overlap", worst);
    if (after > 0) res.violate("overlap-remains", JObj().i("pairs", after).num("worst", worst).i("i", wi).i("j", wj).raw("case", desc).done());
    // (b) sizes, finiteness
    double avg = 0;
    for (int i = 0; i < n; i++) {
        avg += (in[i].w + in[i].h) / 2;
        double dw = std::fabs(rs[i]->width() - w0[i]), dh = std::fabs(rs[i]->height() - h0[i]);
        double mag = std::max(1.0, std::max(std::fabs(rs[i]->getMaxX()), std::fabs(rs[i]->getMaxY())));
        if (!std::isfinite(rs[i]->getMinX()) || !std::isfinite(rs[i]->getMinY()) || !std::isfinite(rs[i]->getMaxX()) || !std::isfinite(rs[i]->getMaxY())) { res.violate("non-finite", JObj().i("i", i).raw("case", desc).done()); break; }
        if (dw > 1e-9 * mag || dh > 1e-9 * mag) { res.violate("size-changed", JObj().i("i", i).num("dw", dw).num("dh", dh).raw("case", desc).done()); break; }
    }
    avg /= n;
    // (d) fixed rectangles
    if (!fixed.empty()) {
        double sumx = 0, sumy = 0;
        for (int i = 0; i < n; i++) if (!fixed.count((unsigned)i)) { sumx += std::fabs(rs[i]->getCentreX() - cx0[i]); sumy += std::fabs(rs[i]->getCentreY() - cy0[i]); }
        {   // weight bound for the group of fixed rectangles (implied for any block structure)
            double gx = 0, gy = 0; for (unsigned f : fixed) { gx += rs[f]->getCentreX() - cx0[f]; gy += rs[f]->getCentreY() - cy0[f]; }
            if (10000 * std::fabs(gx) > sumx + 1e-6 || 10000 * std::fabs(gy) > sumy + 1e-6)
                res.violate("fixed-group-moved-beyond-weight-bound", JObj().num("sum_dx_fixed", gx).num("sum_dy_fixed", gy).num("sum_dx_others", sumx).num("sum_dy_others", sumy).raw("case", desc).done());
        }
        for (unsigned f : fixed) {
            double dx = std::fabs(rs[f]->getCentreX() - cx0[f]), dy = std::fabs(rs[f]->getCentreY() - cy0[f]);
            double mv = std::max(dx, dy);
            res.maxi("fixed_move_over_avg_size", mv / avg);
            res.count("fixed_rectangles_checked");
            bool implied = 10000 * dx <= sumx + 1e-6 && 10000 * dy <= sumy + 1e-6;
            if (fixed.size() == 1 && !implied) {
                res.violate("fixed-moved-beyond-weight-bound", JObj().i("fixed", f).num("dx", dx).num("dy", dy).num("sum_dx_others", sumx).num("sum_dy_others", sumy).raw("case", desc).done());
            } else if (mv >= 0.01 * avg) {
                // literal clause fails; consistent with "fixed = weight 10000" (F5)
                res.violate(fixed.size() == 1 ? "soft-fixed" : "soft-fixed-multi", JObj().i("fixed", f).num("moved", mv).num("avg_size", avg).num("dx", dx).num("dy", dy).raw("case", desc).done());
            }
        }
    }
    for (auto r : rs) delete r;
}

// ---- constraint generators: acyclic + longest-path separation
static void case_gen(const Args &a, long idx, bool wantDesc, CaseResult &res) {
    Rng R(mix(mix(a.seed, 0xC09B), (uint64_t)idx));
    std::vector<R4> in; std::string gen; gen_rects(R, in, gen, 70);
    int n = (int)in.size();
    int which = (int)R.ri(0, 2);   // 0: X without neighbour lists, 1: Y, 2: X with neighbour lists followed by Y (joint)
    double xb = R.coin(0.25) ? 2.0 : 0, yb = R.coin(0.25) ? 1.0 : 0;
    Digest D; for (auto &r : in) { D.d(r.x); D.d(r.y); D.d(r.w); D.d(r.h); } D.i(which); D.d(xb); D.d(yb);
    res.digest = D.h; res.gen = gen + (which == 0 ? "/X" : which == 1 ? "/Y" : "/Xnl+Y");
    std::string desc = JObj().raw("rects_x_y_w_h", rects_json(in)).str("generator", which == 0 ? "generateXConstraints(useNeighbourLists=false)" : which == 1 ? "generateYConstraints" : "generateXConstraints(true) then solve then generateYConstraints").num("xBorder", xb).num("yBorder", yb).done();
    if (wantDesc) res.desc = desc;
    BorderGuard bg; Rectangle::setXBorder(xb); Rectangle::setYBorder(yb);
    Rectangles rs; for (auto &r : in) rs.push_back(new Rectangle(r.x, r.x + r.w, r.y, r.y + r.h));
    vpsc::Variables vs; for (int i = 0; i < n; i++) vs.push_back(new vpsc::Variable(i, 0, 1));
    auto cleanup = [&](vpsc::Constraints &cs) { for (auto c : cs) delete c; cs.clear(); };
    auto check = [&](vpsc::Constraints &cs, bool xaxis, bool requireSeparation, const char *tag) {
        size_t m = cs.size();
        // Kahn
        std::vector<int> indeg(n, 0); std::vector<std::vector<std::pair<int, double>>> out(n);
        for (auto c : cs) { int l = c->left->id, r = c->right->id; out[l].push_back({r, c->gap}); indeg[r]++; }
        std::vector<int> order, st; for (int i = 0; i < n; i++) if (!indeg[i]) st.push_back(i);
        while (!st.empty()) { int v = st.back(); st.pop_back(); order.push_back(v); for (auto &e : out[v]) if (--indeg[e.first] == 0) st.push_back(e.first); }
        res.count(std::string("constraints_generated.") + tag, (long)m);
        if ((int)order.size() != n) { res.violate(std::string(tag) + ":constraint-graph-cyclic", JObj().i("constraints", (long)m).raw("case", desc).done()); return; }
        if (!requireSeparation) return;
        const double NEG = -1e300;
        for (int s = 0; s < n; s++) {
            std::vector<double> lp(n, NEG); lp[s] = 0;
            for (int v : order) if (lp[v] > NEG) for (auto &e : out[v]) lp[e.first] = std::max(lp[e.first], lp[v] + e.second);
            for (int t = s + 1; t < n; t++) {
                // overlap in the other axis (strict, beyond rounding)
                double oo = xaxis ? std::min(rs[s]->getMaxY(), rs[t]->getMaxY()) - std::max(rs[s]->getMinY(), rs[t]->getMinY())
                                  : std::min(rs[s]->getMaxX(), rs[t]->getMaxX()) - std::max(rs[s]->getMinX(), rs[t]->getMinX());
                if (oo <= 1e-9) continue;
                double need = xaxis ? (rs[s]->width() + rs[t]->width()) / 2 : (rs[s]->height() + rs[t]->height()) / 2;
                double fwd = lp[t];
                // reverse direction: longest path t -> s
                std::vector<double> lq(n, NEG); lq[t] = 0;
                for (int v : order) if (lq[v] > NEG) for (auto &e : out[v]) lq[e.first] = std::max(lq[e.first], lq[v] + e.second);
                double best = std::max(fwd, lq[s]);
                res.count("pairs_needing_separation");
                if (best < need - 1e-9) { res.violate(std::string(tag) + ":pair-not-separated-by-constraints", JObj().i("i", s).i("j", t).num("longest_path_gap", best <= NEG ? -1 : best).num("needed", need).num("other_axis_overlap", oo).raw("case", desc).done()); return; }
            }
        }
    };
    vpsc::Constraints cs;
    set_stage("generate");
    long before = count_overlaps(rs, 1e-9);
    res.nontrivial = before > 0;
    if (which == 0) { vpsc::generateXConstraints(rs, vs, cs, false); check(cs, true, true, "X"); cleanup(cs); }
    else if (which == 1) { vpsc::generateYConstraints(rs, vs, cs); check(cs, false, true, "Y"); cleanup(cs); }
    else {
        // the pair of passes used by removeoverlaps: X with neighbour lists, move to ANY satisfying placement
        // (here: a longest-path placement from a random base, not the QP optimum), then Y; jointly no overlap may remain
        vpsc::generateXConstraints(rs, vs, cs, true); check(cs, true, false, "Xnl");
        if (res.findings.empty()) {
            // random satisfying placement: process in topological order, x = max(desired + noise, preds + gap)
            std::vector<int> indeg(n, 0); std::vector<std::vector<std::pair<int, double>>> out(n);
            for (auto c : cs) { out[c->left->id].push_back({c->right->id, c->gap}); indeg[c->right->id]++; }
            std::vector<int> st; std::vector<double> x(n); for (int i = 0; i < n; i++) { x[i] = rs[i]->getCentreX() + (R.coin() ? R.rd(-5, 5) : 0); if (!indeg[i]) st.push_back(i); }
            while (!st.empty()) { int v = st.back(); st.pop_back(); for (auto &e : out[v]) { x[e.first] = std::max(x[e.first], x[v] + e.second); if (--indeg[e.first] == 0) st.push_back(e.first); } }
            for (int i = 0; i < n; i++) rs[i]->moveCentreX(x[i]);
            cleanup(cs);
            vpsc::generateYConstraints(rs, vs, cs); check(cs, false, true, "Y-after-Xnl");
        }
        cleanup(cs);
    }
    for (auto v : vs) delete v; for (auto r : rs) delete r;
}

int main(int argc, char **argv) {
    return harness_main(argc, argv, "c09_overlaps", [](const Args &a, long idx, bool wantDesc, CaseResult &res) {
        if (a.mode == "sets") case_sets(a, idx, wantDesc, res);
        else if (a.mode == "gen") case_gen(a, idx, wantDesc, res);
        else res.inconclusive = "unknown-mode";
    });
}
