// C15: API-lifecycle histories aimed at ownership and teardown (run in the sanitizer build with a leak check after every case).
//   avoid   one Router per case: shapes with connection pins, junctions, connectors ending at free points / pins / junctions, checkpoints;
//           then a random history of creations, moves, endpoint changes and DELETIONS, interleaved at random with processTransaction():
//           shapes whose pins are in use, connectors and junctions inside a pending transaction, a move followed by a delete of the same
//           object, and finally the router destroyed either after a last transaction or with actions still queued.
//   vpsc    IncSolver / Solver lifecycles: solve, move desired positions, addConstraint() between solves (also between variables that
//           already share a block), repeated satisfy()/solve(), teardown in both orders.
// There is no functional oracle here: the monitors are ASan/UBSan/LSan, the throwing assertions and the watchdog.
#include "avoid_scene.h"
#include "libvpsc/solve_VPSC.h"
#include "libvpsc/variable.h"
#include "libvpsc/constraint.h"
#include "libvpsc/rectangle.h"
#include "libcola/cola.h"
#include "libcola/cluster.h"
#include <functional>

using namespace av;

static void case_avoid(const Args &a, long idx, bool wantDesc, CaseResult &res) {
    Rng R(mix(mix(a.seed, 0xA15), (uint64_t)idx));
    bool orth = R.coin(0.5), transactions = R.coin(0.85);
    Avoid::Router *router = new Avoid::Router(orth ? Avoid::OrthogonalRouting : Avoid::PolyLineRouting);
    struct Guard { Avoid::Router *&r; ~Guard() { if (!std::uncaught_exception()) delete r; } } guard{router};
    router->setRoutingParameter(Avoid::segmentPenalty, orth ? 10 : (R.coin() ? 0 : 20));
    if (orth) router->setRoutingParameter(Avoid::idealNudgingDistance, (double)R.ri(1, 6));
    if (R.coin(0.3)) router->setRoutingParameter(Avoid::shapeBufferDistance, (double)R.ri(1, 4));
    if (R.coin(0.3)) router->setRoutingOption(Avoid::nudgeOrthogonalSegmentsConnectedToShapes, true);
    if (R.coin(0.3)) router->setRoutingOption(Avoid::penaliseOrthogonalSharedPathsAtConnEnds, true);
    if (R.coin(0.2)) router->setRoutingOption(Avoid::improveHyperedgeRoutesMovingJunctions, false);
    if (!transactions) router->setTransactionUse(false);
    JArr hist; Digest D; D.i(orth); D.i(transactions);
    struct LS { Avoid::ShapeRef *ref; ll x0, y0, x1, y1; std::vector<unsigned> classes; bool fresh; };
    struct LJ { Avoid::JunctionRef *ref; bool fresh; };
    struct LC { Avoid::ConnRef *ref; int srcShape, dstShape, srcJ, dstJ; };
    std::map<int, LS> shapes; std::map<int, LJ> juncs; std::map<int, LC> conns; int nextId = 1;
    long dependentDeletes = 0; bool queuedAtEnd = false;
    std::set<int> attachedSinceProcess;   // shapes/junctions a connector end was (re)attached to since the last processTransaction: deleting one of these in the same
                                          // transaction is the recorded finding F65 (the queued ConnEnd copy is used after the object is freed), replayed by mode "regress"
    const bool regressF65 = false;
    auto boxFree = [&](ll x0, ll y0, ll x1, ll y1) { for (auto &kv : shapes) { const LS &s = kv.second; if (!(x0 > s.x1 + 3 || x1 < s.x0 - 3 || y0 > s.y1 + 3 || y1 < s.y0 - 3)) return false; } return true; };
    static const bool trace = getenv("VERIF_TRACE") != nullptr;
    auto log = [&](const std::string &op, JObj o) { std::string e = o.str("op", op).done(); if (trace) fprintf(stderr, "TRACE %s\n", e.c_str()); hist.raw(e); D.s(op); };
    auto addShape = [&]() {
        for (int t = 0; t < 40; t++) {
            ll w = R.ri(8, 50), h = R.ri(8, 50), x0 = R.ri(0, 350), y0 = R.ri(0, 350); if (!boxFree(x0, y0, x0 + w, y0 + h)) continue;
            Avoid::Rectangle rect(Avoid::Point((double)x0, (double)y0), Avoid::Point((double)(x0 + w), (double)(y0 + h)));
            int id = nextId++; LS s{new Avoid::ShapeRef(router, rect), x0, y0, x0 + w, y0 + h, {}, true};
            int np = (int)R.ri(0, 3); JArr pj; std::set<std::string> seen;
            for (int p = 0; p < np; p++) {
                unsigned cls = (unsigned)R.ri(1, 2); static const double offs[] = {Avoid::ATTACH_POS_LEFT, Avoid::ATTACH_POS_CENTRE, Avoid::ATTACH_POS_RIGHT, 0.25, 0.75};
                double xo = offs[R.ri(0, 4)], yo = offs[R.ri(0, 4)]; unsigned dirs = R.coin(0.5) ? (unsigned)Avoid::ConnDirAll : (unsigned)(1u << R.ri(0, 3)); if (xo == Avoid::ATTACH_POS_CENTRE && yo == Avoid::ATTACH_POS_CENTRE) dirs = Avoid::ConnDirNone;
                char key[96]; snprintf(key, sizeof key, "%u/%g/%g/%u", cls, xo, yo, dirs); if (!seen.insert(key).second) continue;   // identical pins on one shape: recorded finding F63, kept out of these histories
                new Avoid::ShapeConnectionPin(s.ref, cls, xo, yo, true, 0.0, (Avoid::ConnDirFlags)dirs); s.classes.push_back(cls); pj.raw(JArr().i(cls).num(xo).num(yo).i(dirs).done());
            }
            shapes[id] = s; log("addShape", JObj().i("id", id).raw("box", JArr().i(x0).i(y0).i(x0 + w).i(y0 + h).done()).raw("pins_class_xo_yo_dirs", pj.done())); D.i(x0); D.i(y0); D.i(w); D.i(h);
            return id;
        }
        return -1;
    };
    auto freePt = [&](Avoid::Point &p) { for (int t = 0; t < 100; t++) { ll x = R.ri(0, 400), y = R.ri(0, 400); if (boxFree(x - 2, y - 2, x + 2, y + 2)) { p = Avoid::Point((double)x, (double)y); return true; } } return false; };
    auto addJunction = [&]() { Avoid::Point p; if (!freePt(p)) return -1; int id = nextId++; juncs[id] = LJ{new Avoid::JunctionRef(router, p), true}; if (R.coin(0.3)) juncs[id].ref->setPositionFixed(true); log("addJunction", JObj().i("id", id).num("x", p.x).num("y", p.y)); D.d(p.x); D.d(p.y); return id; };
    // a ConnEnd of a random kind; records which object it depends on
    auto makeEnd = [&](Avoid::ConnEnd &ce, int &shapeDep, int &jDep, JObj &o, const char *name) {
        shapeDep = jDep = -1; int kind = (int)R.ri(0, 9);
        if (kind < 4) { std::vector<int> cand; for (auto &kv : shapes) if (!kv.second.classes.empty()) cand.push_back(kv.first); if (!cand.empty()) { int sid = cand[R.ri(0, (long)cand.size() - 1)]; auto &cl = shapes[sid].classes; unsigned cls = cl[R.ri(0, (long)cl.size() - 1)]; ce = Avoid::ConnEnd(shapes[sid].ref, cls); shapeDep = sid; attachedSinceProcess.insert(sid); o.raw(name, JObj().i("shape", sid).i("class", cls).done()); D.i(sid); D.i(cls); return true; } }
        if (kind < 6 && !juncs.empty()) { auto it = juncs.begin(); std::advance(it, R.ri(0, (long)juncs.size() - 1)); ce = Avoid::ConnEnd(it->second.ref); jDep = it->first; attachedSinceProcess.insert(it->first); o.raw(name, JObj().i("junction", it->first).done()); D.i(it->first); return true; }
        Avoid::Point p; if (!freePt(p)) return false; ce = Avoid::ConnEnd(p); o.raw(name, JArr().num(p.x).num(p.y).done()); D.d(p.x); D.d(p.y); return true;
    };
    std::map<int, int> juncComp;   // junction id -> representative, over junction-junction connectors ever made
    std::function<int(int)> findJ = [&](int x) { auto it = juncComp.find(x); if (it == juncComp.end() || it->second == x) return x; return it->second = findJ(it->second); };
    auto addConn = [&]() {
        Avoid::ConnEnd s, t; LC c{nullptr, -1, -1, -1, -1}; JObj o; if (!makeEnd(s, c.srcShape, c.srcJ, o, "src") || !makeEnd(t, c.dstShape, c.dstJ, o, "dst")) return -1;
        // a connector closing a cycle of junctions makes a cyclic hyperedge: recorded findings F67/F68 (mode "regress"), kept out of the random histories
        if (c.srcJ >= 0 && c.dstJ >= 0) { if (findJ(c.srcJ) == findJ(c.dstJ)) return -1; juncComp[findJ(c.srcJ)] = findJ(c.dstJ); }
        int id = nextId++; c.ref = new Avoid::ConnRef(router, s, t);
        if (R.coin(0.2)) { std::vector<Avoid::Checkpoint> cps; int k = (int)R.ri(1, 2); JArr cj; for (int q = 0; q < k; q++) { Avoid::Point p; if (freePt(p)) { cps.push_back(Avoid::Checkpoint(p)); cj.raw(JArr().num(p.x).num(p.y).done()); } } c.ref->setRoutingCheckpoints(cps); o.raw("checkpoints", cj.done()); }
        if (R.coin(0.1)) { c.ref->setRoutingType(orth ? Avoid::ConnType_PolyLine : Avoid::ConnType_Orthogonal); o.b("other_routing_type", true); }
        conns[id] = c; log("addConnector", o.i("id", id)); return id;
    };
    auto readRoutes = [&]() { double sum = 0; for (auto &kv : conns) { const Avoid::PolyLine &r = kv.second.ref->displayRoute(); for (size_t i = 0; i < r.size(); i++) sum += r.ps[i].x + r.ps[i].y; } res.count("routes_read", (long)conns.size()); return sum; };
    bool pending = false;   // actions queued since the last processTransaction
    auto process = [&]() { set_stage("processTransaction"); router->processTransaction(); for (auto &kv : shapes) kv.second.fresh = false; for (auto &kv : juncs) kv.second.fresh = false; pending = false; attachedSinceProcess.clear(); log("processTransaction", JObj()); set_stage("read-routes"); readRoutes(); res.count("transactions"); };

    int ns = (int)R.ri(1, 8); for (int i = 0; i < ns; i++) addShape();
    int nj = (int)R.ri(0, 2); for (int i = 0; i < nj; i++) addJunction();
    int nc = (int)R.ri(1, 7); for (int i = 0; i < nc; i++) addConn();
    pending = true; if (R.coin(0.8)) process();
    int steps = (int)R.ri(2, 16);
    for (int st = 0; st < steps; st++) {
        int k = (int)R.ri(0, 99); set_stage("queue-op");
        if (k < 10) { addShape(); pending = true; }
        else if (k < 16) { addJunction(); pending = true; }
        else if (k < 28) { addConn(); pending = true; }
        else if (k < 44 && !shapes.empty()) {   // delete a shape (not one whose addition is still queued: Router::deleteShape forbids that)
            std::vector<int> cand; for (auto &kv : shapes) if (!kv.second.fresh && (regressF65 || !attachedSinceProcess.count(kv.first))) cand.push_back(kv.first); if (cand.empty()) continue; int id = cand[R.ri(0, (long)cand.size() - 1)];
            bool used = false; for (auto &kv : conns) if (kv.second.srcShape == id || kv.second.dstShape == id) used = true; if (used) { dependentDeletes++; res.count("shapes_deleted_while_their_pins_were_in_use"); }
            if (R.coin(0.3)) { router->moveShape(shapes[id].ref, (double)R.ri(-20, 20), (double)R.ri(-20, 20)); log("moveShape(before delete)", JObj().i("id", id)); res.count("moves_followed_by_delete"); }
            router->deleteShape(shapes[id].ref); for (auto &kv : conns) { if (kv.second.srcShape == id) kv.second.srcShape = -1; if (kv.second.dstShape == id) kv.second.dstShape = -1; }
            shapes.erase(id); log("deleteShape", JObj().i("id", id).b("pins_in_use", used).b("pending_transaction", pending)); pending = true; res.count("shapes_deleted");
        }
        else if (k < 58 && !conns.empty()) {    // delete a connector, typically inside a pending transaction
            auto it = conns.begin(); std::advance(it, R.ri(0, (long)conns.size() - 1)); int id = it->first;
            if (R.coin(0.3)) { Avoid::Point p; if (freePt(p)) { it->second.ref->setSourceEndpoint(Avoid::ConnEnd(p)); log("setSourceEndpoint(before delete)", JObj().i("id", id)); pending = true; } }
            if (pending) { res.count("connectors_deleted_inside_pending_transaction"); dependentDeletes++; }
            router->deleteConnector(it->second.ref); conns.erase(it); log("deleteConnector", JObj().i("id", id).b("pending_transaction", pending)); res.count("connectors_deleted");
        }
        else if (k < 64 && !juncs.empty()) {    // delete a junction, possibly with connectors attached
            std::vector<int> cand; for (auto &kv : juncs) if (!kv.second.fresh && (regressF65 || !attachedSinceProcess.count(kv.first))) cand.push_back(kv.first); if (cand.empty()) continue; int id = cand[R.ri(0, (long)cand.size() - 1)];
            bool used = false; for (auto &kv : conns) if (kv.second.srcJ == id || kv.second.dstJ == id) used = true; if (used) { dependentDeletes++; res.count("junctions_deleted_with_connectors_attached"); }
            router->deleteJunction(juncs[id].ref); for (auto &kv : conns) { if (kv.second.srcJ == id) kv.second.srcJ = -1; if (kv.second.dstJ == id) kv.second.dstJ = -1; }
            juncs.erase(id); log("deleteJunction", JObj().i("id", id).b("connectors_attached", used)); pending = true; res.count("junctions_deleted");
        }
        else if (k < 76 && !shapes.empty()) {   // move a shape (relative, or absolute with the same number of vertices)
            std::vector<int> cand; for (auto &kv : shapes) if (!kv.second.fresh) cand.push_back(kv.first); if (cand.empty()) continue; int id = cand[R.ri(0, (long)cand.size() - 1)]; LS &s = shapes[id];
            ll dx = R.ri(-30, 30), dy = R.ri(-30, 30);
            if (R.coin()) router->moveShape(s.ref, (double)dx, (double)dy); else { Avoid::Rectangle rect(Avoid::Point((double)(s.x0 + dx), (double)(s.y0 + dy)), Avoid::Point((double)(s.x1 + dx), (double)(s.y1 + dy))); router->moveShape(s.ref, rect); }
            s.x0 += dx; s.x1 += dx; s.y0 += dy; s.y1 += dy; log("moveShape", JObj().i("id", id).i("dx", dx).i("dy", dy)); pending = true;
        }
        else if (k < 82 && !juncs.empty()) { std::vector<int> cand; for (auto &kv : juncs) if (!kv.second.fresh) cand.push_back(kv.first); if (cand.empty()) continue; int id = cand[R.ri(0, (long)cand.size() - 1)]; Avoid::Point p; if (!freePt(p)) continue; router->moveJunction(juncs[id].ref, p); log("moveJunction", JObj().i("id", id).num("x", p.x).num("y", p.y)); pending = true; }
        else if (k < 92 && !conns.empty()) {    // re-attach an end
            auto it = conns.begin(); std::advance(it, R.ri(0, (long)conns.size() - 1)); Avoid::ConnEnd ce; int sd, jd; JObj o; if (!makeEnd(ce, sd, jd, o, "to")) continue;
            if (jd >= 0) continue;   // re-attaching to a junction could close a cycle of junctions (F67/F68)
            if (R.coin()) { it->second.ref->setSourceEndpoint(ce); it->second.srcShape = sd; it->second.srcJ = jd; log("setSourceEndpoint", o.i("id", it->first)); } else { it->second.ref->setDestEndpoint(ce); it->second.dstShape = sd; it->second.dstJ = jd; log("setDestEndpoint", o.i("id", it->first)); }
            pending = true;
        }
        else if (!conns.empty()) { auto it = conns.begin(); std::advance(it, R.ri(0, (long)conns.size() - 1)); it->second.ref->makePathInvalid(); log("makePathInvalid", JObj().i("id", it->first)); }
        if (transactions ? R.coin(0.4) : true) process();
    }
    if (R.coin(0.5)) process(); else if (pending && transactions) { queuedAtEnd = true; res.count("routers_destroyed_with_queued_actions"); log("~Router with queued actions", JObj()); }
    res.count("histories"); res.count("history_operations", steps);
    res.nontrivial = dependentDeletes > 0 || queuedAtEnd;
    res.gen = std::string(orth ? "orthogonal" : "polyline") + (transactions ? "" : "/no-transactions") + (queuedAtEnd ? "/destroyed-with-queue" : "");
    res.digest = D.h; if (wantDesc) res.desc = JObj().b("orthogonal", orth).b("transactions", transactions).raw("history", hist.done()).done();
    set_stage("~Router");
}

static void case_vpsc(const Args &a, long idx, bool wantDesc, CaseResult &res) {
    Rng R(mix(mix(a.seed, 0xB15), (uint64_t)idx));
    int n = (int)R.ri(2, 14); bool inc = R.coin(0.8); JArr hist; Digest D;
    std::vector<vpsc::Variable *> vs; std::vector<vpsc::Constraint *> cs; std::vector<double> pos(n);
    for (int i = 0; i < n; i++) { pos[i] = (double)R.ri(0, 60); vs.push_back(new vpsc::Variable(i, pos[i], R.coin(0.2) ? (double)R.ri(1, 5) : 1.0)); D.d(pos[i]); }
    // an order in which every constraint points forward keeps the set satisfiable (no cycles)
    std::vector<int> rank(n); for (int i = 0; i < n; i++) rank[i] = i; R.shuffle(rank);
    auto mkCon = [&]() { int l = (int)R.ri(0, n - 1), r = (int)R.ri(0, n - 1); if (l == r) return (vpsc::Constraint *)nullptr; if (rank[l] > rank[r]) std::swap(l, r); double gap = (double)R.ri(0, 12); bool eq = R.coin(0.1); hist.raw(JArr().i(l).i(r).num(gap).i(eq ? 1 : 0).done()); D.i(l); D.i(r); D.d(gap); return new vpsc::Constraint(vs[l], vs[r], gap, eq); };
    int m0 = (int)R.ri(0, 2 * n); for (int i = 0; i < m0; i++) { auto c = mkCon(); if (c) cs.push_back(c); }
    long added = 0;
    if (inc) {
        vpsc::IncSolver *s = new vpsc::IncSolver(vs, cs);
        int rounds = (int)R.ri(1, 6);
        for (int r = 0; r < rounds; r++) {
            set_stage("IncSolver::solve"); if (R.coin(0.8)) s->solve(); else s->satisfy();
            res.count("solves");
            for (int i = 0; i < n; i++) if (R.coin(0.4)) { vs[i]->desiredPosition = (double)R.ri(0, 60); D.d(vs[i]->desiredPosition); }
            int k = (int)R.ri(0, 3); for (int q = 0; q < k; q++) { auto c = mkCon(); if (c) { cs.push_back(c); set_stage("IncSolver::addConstraint"); s->addConstraint(c); added++; } }
        }
        set_stage("IncSolver::solve(final)"); s->solve(); res.count("solves");
        set_stage("teardown"); delete s;
    } else {
        vpsc::Solver *s = new vpsc::Solver(vs, cs); set_stage("Solver::solve"); if (R.coin()) s->solve(); else s->satisfy(); res.count("solves"); set_stage("teardown"); delete s;
    }
    for (auto c : cs) delete c; for (auto v : vs) delete v;
    res.count("constraints_added_between_solves", added); res.count("histories");
    res.nontrivial = added > 0; res.gen = inc ? "IncSolver" : "Solver"; res.digest = D.h;
    if (wantDesc) res.desc = JObj().i("n", n).b("incremental", inc).raw("constraints_l_r_gap_eq(in order; the first m0 before the solver was built)", hist.done()).i("m0", m0).done();
}

// fixed witnesses of recorded findings (the random histories avoid these sequences so that they cannot mask anything else)
static void case_regress(const Args &a, long idx, bool wantDesc, CaseResult &res) {
    (void)a; res.nontrivial = true; res.digest = 0xF65 + (uint64_t)idx;
    if (idx == 0) {
        // F65: an endpoint is re-attached to a shape's pin and the shape is deleted in the same transaction
        res.gen = "F65:attach-then-delete-shape-in-one-transaction";
        if (wantDesc) res.desc = JObj().str("history", "shape A, shape B (pin class 1), connector (10,10)-(300,300); processTransaction; setDestEndpoint(ConnEnd(B,1)); deleteShape(B); processTransaction").done();
        Avoid::Router *router = new Avoid::Router(Avoid::PolyLineRouting);
        struct Guard { Avoid::Router *&r; ~Guard() { if (!std::uncaught_exception()) delete r; } } guard{router};
        Avoid::Rectangle ra(Avoid::Point(50, 50), Avoid::Point(90, 90)), rb(Avoid::Point(150, 150), Avoid::Point(200, 200));
        new Avoid::ShapeRef(router, ra); Avoid::ShapeRef *B = new Avoid::ShapeRef(router, rb);
        new Avoid::ShapeConnectionPin(B, 1, Avoid::ATTACH_POS_CENTRE, Avoid::ATTACH_POS_CENTRE, true, 0.0, Avoid::ConnDirNone);
        Avoid::ConnRef *c = new Avoid::ConnRef(router, Avoid::ConnEnd(Avoid::Point(10, 10)), Avoid::ConnEnd(Avoid::Point(300, 300)));
        set_stage("processTransaction"); router->processTransaction();
        c->setDestEndpoint(Avoid::ConnEnd(B, 1)); router->deleteShape(B);
        set_stage("processTransaction(attach+delete)"); router->processTransaction();
        (void)c->displayRoute();
    } else if (idx == 1 || idx == 2) {
        // F67/F68: cyclic hyperedges -- a connector from a junction to itself (1), two connectors between the same two junctions (2)
        res.gen = idx == 1 ? "F67:connector-from-a-junction-to-itself" : "F67:two-connectors-between-two-junctions";
        if (wantDesc) res.desc = JObj().str("history", idx == 1 ? "junction J, connectors J-J and J-(300,300); processTransaction; ~Router" : "junctions J,K, connectors J-K, J-K, K-(300,300); processTransaction; ~Router").done();
        Avoid::Router *router = new Avoid::Router(Avoid::OrthogonalRouting);
        struct Guard { Avoid::Router *&r; ~Guard() { if (!std::uncaught_exception()) delete r; } } guard{router};
        Avoid::Rectangle ra(Avoid::Point(50, 50), Avoid::Point(90, 90)); new Avoid::ShapeRef(router, ra);
        Avoid::JunctionRef *J = new Avoid::JunctionRef(router, Avoid::Point(150, 100)), *K = idx == 2 ? new Avoid::JunctionRef(router, Avoid::Point(250, 180)) : nullptr;
        if (idx == 1) { new Avoid::ConnRef(router, Avoid::ConnEnd(J), Avoid::ConnEnd(J)); new Avoid::ConnRef(router, Avoid::ConnEnd(J), Avoid::ConnEnd(Avoid::Point(300, 300))); }
        else { new Avoid::ConnRef(router, Avoid::ConnEnd(J), Avoid::ConnEnd(K)); new Avoid::ConnRef(router, Avoid::ConnEnd(J), Avoid::ConnEnd(K)); new Avoid::ConnRef(router, Avoid::ConnEnd(K), Avoid::ConnEnd(Avoid::Point(300, 300))); }
        set_stage("processTransaction"); router->processTransaction();
    } else res.inconclusive = "no-such-witness";
}

// libcola ownership: a layout that is handed rectangles, compound constraints (the same pointer may be listed more than once) and a
// cluster hierarchy and is asked to free them itself (freeAssociatedObjects), and the majorization layout with the unsatisfiable-constraint
// lists and overlap avoidance switched on together.
static void case_cola(const Args &a, long idx, bool wantDesc, CaseResult &res) {
    Rng R(mix(mix(a.seed, 0xC15C), (uint64_t)idx));
    int n = (int)R.ri(2, 14); int kind = (int)R.ri(0, 2); bool overlaps = R.coin(0.5);  // 0: FD layout owning its objects, 1: FD layout, caller frees, 2: majorization with unsatisfiable lists
    vpsc::Rectangles rs; for (int i = 0; i < n; i++) { double x = R.rd(0, 100), y = R.rd(0, 100); rs.push_back(new vpsc::Rectangle(x, x + R.rd(5, 30), y, y + R.rd(5, 30))); }
    std::vector<cola::Edge> es; for (int i = 1; i < n; i++) if (R.coin(0.8)) es.push_back(cola::Edge((unsigned)R.ri(0, i - 1), (unsigned)i));
    cola::CompoundConstraints ccs; int nc = (int)R.ri(0, 6); long dups = 0;
    for (int c = 0; c < nc; c++) {
        int t = (int)R.ri(0, 3); unsigned u = (unsigned)R.ri(0, n - 1), v = (unsigned)R.ri(0, n - 1); vpsc::Dim dim = R.coin() ? vpsc::XDIM : vpsc::YDIM;
        if (t == 0 && u != v) ccs.push_back(new cola::SeparationConstraint(dim, u, v, R.rd(0, 60), !overlaps && R.coin(0.2)));
        else if (t == 1 && !overlaps) { cola::AlignmentConstraint *al = new cola::AlignmentConstraint(dim); al->addShape(u, 0); if (u != v) al->addShape(v, R.rd(-10, 10)); ccs.push_back(al); }
        else if (t == 2) { cola::BoundaryConstraint *b = new cola::BoundaryConstraint(dim); b->addShape(u, -R.rd(1, 20)); if (u != v) b->addShape(v, R.rd(1, 20)); ccs.push_back(b); }
        else if (!ccs.empty()) { ccs.push_back(ccs[R.ri(0, (long)ccs.size() - 1)]); dups++; }   // the same constraint object listed again
    }
    R.shuffle(ccs);
    bool clusters = kind != 2 && n >= 4 && R.coin(0.4); bool run = R.coin(0.8); cola::TestConvergence tc(1e-3, (unsigned)R.ri(1, 12));
    res.gen = kind == 0 ? "fd/freeAssociatedObjects" : kind == 1 ? "fd/caller-frees" : "majorization/unsatisfiable-lists"; res.nontrivial = dups > 0 || kind == 2;
    Digest D; D.i(n); D.i(kind); D.i(nc); D.i(dups); D.i(clusters); D.i(overlaps); D.d(rs[0]->getMinX()); res.digest = D.h;
    if (wantDesc) res.desc = JObj().i("n", n).str("kind", res.gen).i("constraints", (long)ccs.size()).i("duplicate_entries", dups).b("clusters", clusters).b("avoid_overlaps", overlaps).b("run", run).done();
    if (getenv("VERIF_TRACE")) { printf("n=%d kind=%d clusters=%d overlaps=%d run=%d edges=%zu\n", n, kind, clusters, overlaps, run, es.size()); for (auto c : ccs) printf("  %p %s\n", (void *)c, c->toString().c_str()); fflush(stdout); }
    int efd = dup(2); int nul = open("/dev/null", O_WRONLY); dup2(nul, 2); close(nul); struct EG { int fd; ~EG() { dup2(fd, 2); close(fd); } } eg{efd};
    res.count("cola_lifecycles"); if (dups) res.count("constraint_vectors_with_repeated_pointers");
    if (kind <= 1) {
        cola::RootCluster *root = nullptr;
        if (clusters) { root = new cola::RootCluster(); cola::RectangularCluster *c1 = new cola::RectangularCluster(); for (int i = 0; i < n / 2; i++) c1->addChildNode((unsigned)i); root->addChildCluster(c1); for (int i = n / 2; i < n; i++) root->addChildNode((unsigned)i); }
        cola::UnsatisfiableConstraintInfos ux, uy;
        {
            cola::ConstrainedFDLayout alg(rs, es, R.rd(30, 80), cola::StandardEdgeLengths, &tc); alg.setConstraints(ccs); alg.setUnsatisfiableConstraintInfo(&ux, &uy);
            if (overlaps) alg.setAvoidNodeOverlaps(true); if (root) alg.setClusterHierarchy(root);
            if (run) { if (R.coin(0.3)) { set_stage("cola:makeFeasible"); alg.makeFeasible(); } set_stage("cola:run"); alg.run(); }
            if (kind == 0) { set_stage("cola:freeAssociatedObjects"); alg.freeAssociatedObjects(); res.count("freeAssociatedObjects_calls"); }
            set_stage("cola:~ConstrainedFDLayout");
        }
        for (auto u : ux) delete u; for (auto u : uy) delete u;
        if (kind == 1) { std::set<cola::CompoundConstraint *> uniq(ccs.begin(), ccs.end()); for (auto c : uniq) delete c; for (auto r : rs) delete r; delete root; }
    } else {
        cola::UnsatisfiableConstraintInfos ux, uy; std::vector<double> el;
        {
            cola::ConstrainedMajorizationLayout alg(rs, es, nullptr, R.rd(30, 80), el, &tc); alg.setConstraints(&ccs); alg.setUnsatisfiableConstraintInfo(&ux, &uy);
            if (overlaps) alg.setAvoidOverlaps(true);
            if (run) { set_stage("majorization:run"); alg.run(); }
            set_stage("majorization:~ConstrainedMajorizationLayout");
        }
        for (auto u : ux) delete u; for (auto u : uy) delete u;
        std::set<cola::CompoundConstraint *> uniq(ccs.begin(), ccs.end()); for (auto c : uniq) delete c; for (auto r : rs) delete r;
    }
    vpsc::Rectangle::setXBorder(0); vpsc::Rectangle::setYBorder(0);
}

int main(int argc, char **argv) {
    return harness_main(argc, argv, "c15_api", [](const Args &a, long idx, bool wantDesc, CaseResult &res) {
        if (a.mode == "avoid") case_avoid(a, idx, wantDesc, res);
        else if (a.mode == "regress") case_regress(a, idx, wantDesc, res);
        else if (a.mode == "vpsc") case_vpsc(a, idx, wantDesc, res);
        else if (a.mode == "cola") case_cola(a, idx, wantDesc, res);
        else res.inconclusive = "unknown-mode";
    });
}
