#!/usr/bin/env python3
"""Pseudo-harness for C15: the repository's own test programs, compiled against the sanitizer build of the libraries and run
under ASan+UBSan (leak detection off: the test programs themselves do not free what they build).  Speaks the harness protocol of
common.h (--seed --from --to --out --mode --tier --watchdog ...): case index = position in the sorted list of check_PROGRAMS of
all five lib*/tests/Makefile.am files.  A test counts as held when it exits 0 without a sanitizer report."""
import hashlib, json, os, re, struct, subprocess, sys

VERIF = os.path.dirname(os.path.dirname(os.path.abspath(__file__)))
sys.path.insert(0, VERIF)
import build as B  # noqa: E402

REPO = B.REPO if hasattr(B, "REPO") else "/repo"
COLA = os.path.join(REPO, "cola")
LIBS = ["libvpsc", "libcola", "libavoid", "libtopology", "libdialect"]


def test_list():
    out = []
    for lib in LIBS:
        mk = os.path.join(COLA, lib, "tests", "Makefile.am")
        try:
            txt = open(mk).read()
        except OSError:
            continue
        txt = txt.replace("\\\n", " ")
        for line in txt.splitlines():
            m = re.match(r"\s*check_PROGRAMS\s*\+?=\s*(.*)$", line)
            if m:
                names = m.group(1).split("#")[0].split()
                for n in names:
                    src = os.path.join(COLA, lib, "tests", n + ".cpp")
                    sm = re.search(r"^\s*%s_SOURCES\s*=\s*(\S+)" % re.escape(n), txt, re.M)
                    if sm:
                        src = os.path.join(COLA, lib, "tests", sm.group(1))
                    if os.path.exists(src):
                        out.append((lib, n, src))
    return sorted(set(out))


def main():
    a = {"--seed": "1", "--from": "0", "--to": "0", "--out": "", "--mode": "all", "--tier": "quick", "--watchdog": "300"}
    argv = sys.argv[1:]
    i = 0
    while i < len(argv):
        if argv[i] in ("--leakcheck", "--desc-all"):
            i += 1
            continue
        a[argv[i]] = argv[i + 1]
        i += 2
    lo, hi, out = int(a["--from"]), int(a["--to"]), a["--out"]
    tests = test_list()
    archive = os.path.join(B.BUILD, "san", "libadaptagrams.a")
    cc, fl = B.FLAVOURS["san"]
    bindir = os.path.join(B.BUILD, "san", "repotests")
    os.makedirs(bindir, exist_ok=True)
    env = dict(os.environ)
    env["ASAN_OPTIONS"] = "abort_on_error=0:detect_leaks=0:allocator_may_return_null=1:exitcode=99"
    env["UBSAN_OPTIONS"] = "print_stacktrace=1:halt_on_error=1:exitcode=98"
    tot = dict(evaluations=0, held=0, violated=0, inconclusive=0, nontrivial=0, c15=0)
    gens, gens_nt, inc = {}, {}, {}
    fo = open(out, "a")
    dig = open(out + ".dig", "ab")
    for idx in range(lo, hi):
        with open(out + ".progress", "w") as pf:
            pf.write("%d\n" % idx)
        if idx >= len(tests):
            tot["evaluations"] += 1
            tot["inconclusive"] += 1
            inc["beyond-test-list"] = inc.get("beyond-test-list", 0) + 1
            continue
        lib, name, src = tests[idx]
        tot["evaluations"] += 1
        gens[lib] = gens.get(lib, 0) + 1
        exe = os.path.join(bindir, "%s_%s" % (lib, name))
        tdir = os.path.dirname(src)
        c15, verdict, reason = [], "held", None
        need = not os.path.exists(exe) or os.path.getmtime(exe) < max(os.path.getmtime(src), os.path.getmtime(archive))
        if need:
            cmd = cc + B.COMMON + fl + ["-w", "-I" + tdir, src, archive, "-o", exe, "-lpthread"]
            p = subprocess.run(cmd, capture_output=True, text=True)
            if p.returncode != 0:
                verdict, reason = "inconclusive", "test-does-not-compile-standalone"
        if verdict == "held":
            os.makedirs(os.path.join(tdir, "output"), exist_ok=True)
            try:
                p = subprocess.run([exe], cwd=tdir, capture_output=True, text=True, errors="replace", env=env, timeout=int(a["--watchdog"]))
                rc, err = p.returncode, p.stderr[-200000:]
            except subprocess.TimeoutExpired:
                rc, err = -999, ""
            keys = []
            m = re.search(r"ERROR: AddressSanitizer: ([\w-]+)", err)
            if m:
                frames = [re.sub(r"\(.*$", "", f) for f in re.findall(r"#\d+ 0x[0-9a-f]+ in (.+?) /repo/cola/(?!lib\w+/tests/)", err)]
                keys.append("asan:%s:%s" % (m.group(1), ">".join(frames[:2]) or "?"))
            for m in re.finditer(r"(\S+?):(\d+):(\d+): runtime error: (.*)$", err, re.M):
                msg = re.sub(r"0x[0-9a-f]+", "ADDR", m.group(4))
                msg = re.sub(r"-?\d+(\.\d+)?(e[+-]?\d+)?", "N", msg)
                keys.append("ubsan:%s:%s" % (os.path.basename(m.group(1)), msg[:80]))
            if rc == -999:
                keys.append("hang:repo-test:%s/%s" % (lib, name))
            elif rc != 0 and not keys:
                what = "terminate" if "terminate called" in err else "exit-%d" % rc
                am = re.search(r"expression: (.*)\n\s*at line \d+ of (\S+)", err)
                if am:
                    what = "assert:%s:%s" % (os.path.basename(am.group(2)), am.group(1).strip()[:80])
                keys.append("repo-test-fails-in-sanitizer-build:%s/%s:%s" % (lib, name, what))
            for k in dict.fromkeys(keys):
                c15.append({"key": k, "witness": {"test": "%s/tests/%s" % (lib, name), "rc": rc, "stderr_tail": err[-1500:]}})
            if c15:
                verdict, reason = "inconclusive", "sanitizer-or-failure"
        if verdict == "held":
            tot["held"] += 1
            tot["nontrivial"] += 1
            gens_nt[lib] = gens_nt.get(lib, 0) + 1
            dig.write(struct.pack("<Q", int(hashlib.sha1(("%s/%s" % (lib, name)).encode()).hexdigest()[:16], 16)))
        else:
            tot["inconclusive"] += 1
            inc[reason] = inc.get(reason, 0) + 1
            tot["c15"] += len(c15)
            line = {"t": "case", "case": idx, "mode": a["--mode"], "gen": lib, "verdict": "inconclusive", "nt": False,
                    "digest": "%016x" % 0, "reason": reason, "desc": {"test": "%s/tests/%s" % (lib, name)}}
            if c15:
                line["c15"] = c15
            fo.write(json.dumps(line) + "\n")
            fo.flush()
    s = dict(t="summary", mode=a["--mode"], partial=False, obs={"repository_tests_run_under_sanitizers": tot["held"] + tot["c15"]}, gens=gens, gens_nt=gens_nt,
             inconclusive_reasons=inc, violation_keys={}, obsmax={})
    s["from"], s["to"] = lo, hi
    s.update(tot)
    fo.write(json.dumps(s) + "\n")
    fo.close()
    dig.close()
    return 0


if __name__ == "__main__":
    sys.exit(main())
