#!/usr/bin/env python3
"""adopt_seed.py <worktree change dir> <seed id> <property> "<detected by: free text>" "<verify line>"
Copies a confirmed seeded change into /verif/seeded/<seed id>/ (patch.diff, demo.cpp, meta.json)."""
import json, os, shutil, sys
src, sid, prop, detected, verify = sys.argv[1:6]
dst = os.path.join(os.path.dirname(os.path.abspath(__file__)), "seeded", sid)
os.makedirs(dst, exist_ok=True)
shutil.copy(os.path.join(src, "patch.diff"), os.path.join(dst, "patch.diff"))
shutil.copy(os.path.join(src, "demo.cpp"), os.path.join(dst, "demo.cpp"))
try:
    am = json.load(open(os.path.join(src, "meta.json")))
except Exception:
    am = {}
meta = dict(
    seed_id=sid, property=prop,
    summary=am.get("summary", ""),
    needs_to_manifest=am.get("needs_to_manifest", ""),
    author="independent sub-agent given only the property text and a scratch worktree",
    author_tests_run=am.get("tests_run", ""),
    confirmed_by_me=verify,
    what_i_ran="verify_seed.sh in the scratch worktree: apply patch, make, run every lib*/tests directory with make -k check, build and run demo.cpp with and without the patch; then seedtest.sh (git -C /repo apply; ./check <ids> --tier quick; git -C /repo checkout -- .)",
    detected_by=detected,
)
json.dump(meta, open(os.path.join(dst, "meta.json"), "w"), indent=1)
print("adopted", sid)
