#!/usr/bin/env python3
"""Rewrites the findings table (section 9) and the seeded-changes table (section 11) of DESIGN.md from known_findings.json and
seeded/*/meta.json.  The tables sit between HTML comment markers."""
import glob, json, os, re
HERE = os.path.dirname(os.path.abspath(__file__))


def short(s, n):
    s = s.replace("\n", " ").replace("|", "/")
    s = re.sub(r"^fixed: property=\S+ \S+ ", "", s)
    return s if len(s) <= n else s[:n - 1].rsplit(" ", 1)[0] + " …"


def idkey(i):
    m = re.match(r"F(\d+)([a-z]?)", i)
    return (int(m.group(1)), m.group(2))


def main():
    d = json.load(open(os.path.join(HERE, "known_findings.json")))
    rows = []
    for f in sorted(d["findings"], key=lambda f: idkey(f["id"])):
        st = ("fixed `%s`" % f["commit"]) if f["status"] == "fixed" else "known"
        rows.append("| %s | %s | %s | %s |" % (f["id"], f["property"], st, short(f["what"], 260)))
    ft = "| id | property | status | what fails |\n|---|---|---|---|\n" + "\n".join(rows)
    srows = []
    for m in sorted(glob.glob(os.path.join(HERE, "seeded", "*", "meta.json"))):
        j = json.load(open(m))
        srows.append("| %s | %s | %s |" % (j["seed_id"], short(j.get("summary", ""), 230), short(j["detected_by"], 260)))
    st = "| seed | change (by an independent sub-agent) | caught by |\n|---|---|---|\n" + "\n".join(srows)
    p = os.path.join(HERE, "DESIGN.md")
    s = open(p).read()
    for name, tab in (("FINDINGS", ft), ("SEEDS", st)):
        b, e = "<!-- %s-TABLE-BEGIN -->" % name, "<!-- %s-TABLE-END -->" % name
        i, j = s.index(b), s.index(e)
        s = s[:i + len(b)] + "\n" + tab + "\n" + s[j:]
    open(p, "w").write(s)
    print("findings: %d (%d fixed), seeds: %d" % (len(rows), sum(1 for f in d["findings"] if f["status"] == "fixed"), len(srows)))


if __name__ == "__main__":
    main()
