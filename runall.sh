#!/bin/bash
# usage: runall.sh [seed] [tier]  -- run every registered check, one line each
seed=${1:-1}; tier=${2:-quick}
for id in $(python3 -c "import json;print(' '.join(c['property_id'] for c in json.load(open('/verif/MANIFEST.json'))['checks']))"); do
  out=$(VERIF_SEED=$seed ./check $id --tier $tier 2>&1); rc=$?
  echo "$id exit=$rc $(echo "$out" | grep -E '^\[check\] .* (quick|thorough):' | sed 's/.*: //')"
  echo "$out" | grep -E "VIOLATION|HARNESS-FAILURE" | cut -c1-220
done
