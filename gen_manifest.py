#!/usr/bin/env python3
"""Regenerates MANIFEST.json from checks.py (run after editing checks.py)."""
import json, os, subprocess, sys
VERIF = os.path.dirname(os.path.abspath(__file__))
sys.path.insert(0, VERIF)
from checks import CHECKS, MANIFEST_TEXT, NOT_APPLICABLE  # noqa

props = [json.loads(l) for l in open(os.path.join(VERIF, "properties.jsonl"))]
try:
    hook_commits = subprocess.check_output(
        ["git", "-C", "/repo", "log", "--format=%h %s", "--grep=^verif hook"], text=True).strip().splitlines()
except Exception:
    hook_commits = []

checks = []
for p in props:
    pid = p["id"]
    if pid not in CHECKS:
        continue
    spec = CHECKS[pid]
    mt = MANIFEST_TEXT[pid]
    checks.append(dict(
        property_id=pid,
        quick_cmd="./check %s --tier quick" % pid,
        thorough_cmd="./check %s --tier thorough" % pid,
        evidence_file="evidence/%s.json" % pid,
        replay_cmd_template="./check %s --replay {path}" % pid,
        engine="runtime-monitor",
        level_claimed=dict(category=spec.get("level", "exploration"), text=mt["text"], design_ref=mt.get("design_ref", "DESIGN.md section 3, " + pid)),
        level_note=mt["note"],
        technique=mt["technique"],
    ))
na = [dict(property_id=p["id"], reason=NOT_APPLICABLE.get(p["id"], "check not built yet in this revision of /verif"))
      for p in props if p["id"] not in CHECKS]
man = dict(
    version=1,
    setup_cmd="python3 build.py libs mon && python3 build.py libs san && python3 build.py libs rel",
    hooks=dict(
        guard="ADAPTAGRAMS_VERIF",
        enable="checks compile /repo/cola/lib*/*.cpp themselves (build.py) with -DADAPTAGRAMS_VERIF -DUSE_ASSERT_EXCEPTIONS; the autotools build never defines the guard",
        baseline_off_cmd="cd /repo/cola && make -k check",
        source_commits=[c.split()[0] for c in hook_commits],
        add_only=True,
    ),
    engines=[dict(name="runtime-monitor", path="check", serves_properties=[c["property_id"] for c in checks],
                  kind_free_text="python driver + C++ harnesses (harness/*.cpp) linked against flavour builds of the libraries "
                                 "(mon: assertions as exceptions; san: gcc ASan+UBSan+LSan); oracles are independent reference "
                                 "implementations evaluated on every generated case / history")],
    checks=checks,
    notes="All checks rebuild the libraries from /repo's working tree (content-hashed object cache under /verif/.build). "
          "Crashes, sanitizer reports, library assertions and hangs observed by any check are reported as violations of C15. "
          "known_findings.json lists genuine defects recorded but not repaired.",
    not_applicable=na,
)
with open(os.path.join(VERIF, "MANIFEST.json"), "w") as f:
    json.dump(man, f, indent=1)
    f.write("\n")
print("MANIFEST.json: %d checks, %d not_applicable" % (len(checks), len(na)))
