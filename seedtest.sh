#!/bin/bash
# usage: seedtest.sh <patch.diff> <ID> [<ID>...]   -- apply a seeded change to /repo, run the quick checks, undo it
patch=$1; shift
cd /repo || exit 2
if ! git diff --quiet; then echo "/repo has uncommitted changes"; exit 2; fi
git apply "$patch" || { echo "patch does not apply"; exit 2; }
for id in "$@"; do
  out=$(cd /verif && ./check $id --tier quick 2>&1); rc=$?
  echo "$out" | grep -E "VIOLATION|HARNESS-FAILURE|\[check\] $id quick:" | cut -c1-260
  echo "RESULT $id exit=$rc"
done
git -C /repo checkout -- .
git -C /repo status --short | head
