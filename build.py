#!/usr/bin/env python3
"""Flavour builds of the adaptagrams libraries and of the /verif harnesses.

Everything is compiled straight from /repo/cola (working tree, no autotools,
nothing written into /repo) into /verif/.build/<flavour>/.  Objects are reused
only if the sha1 of (flags, translation unit, every header it included last
time) is unchanged, so edits to /repo -- including edits that restore an old
mtime -- are always picked up.

usage: build.py libs <flavour>
       build.py harness <flavour> <name> [...]
"""
import hashlib, json, os, subprocess, sys, time
from concurrent.futures import ThreadPoolExecutor

VERIF = os.path.dirname(os.path.abspath(__file__))
REPO = os.environ.get("VERIF_REPO", "/repo")
COLA = os.path.join(REPO, "cola")
BUILD = os.path.join(VERIF, ".build")
LIBS = ["libdialect", "libtopology", "libcola", "libavoid", "libvpsc"]  # link order
GUARD = "ADAPTAGRAMS_VERIF"
JOBS = int(os.environ.get("VERIF_JOBS", "16"))

COMMON = ["-std=gnu++11", "-w", "-g", "-I" + COLA]
FLAVOURS = {
    # monitors: assertions on, delivered as vpsc::CriticalFailure exceptions
    "mon": (["g++"], ["-O1", "-D" + GUARD, "-DUSE_ASSERT_EXCEPTIONS"]),
    # sanitizers (gcc 12): ASan + UBSan (+ LSan at exit), reports fatal
    "san": (["g++"], ["-O1", "-fno-omit-frame-pointer", "-fsanitize=address,undefined",
                      "-fno-sanitize-recover=all", "-D" + GUARD, "-DUSE_ASSERT_EXCEPTIONS"]),
    # baseline semantics: plain assert() aborts, hooks off
    "abrt": (["g++"], ["-O1"]),
    # release semantics: assertions compiled out (NDEBUG), hooks on -- what a user of a release build sees
    "rel": (["g++"], ["-O1", "-DNDEBUG", "-D" + GUARD]),
    # for valgrind memcheck
    "vg": (["g++"], ["-O0", "-D" + GUARD, "-DUSE_ASSERT_EXCEPTIONS"]),
}

_hash_cache = {}


def fhash(path):
    h = _hash_cache.get(path)
    if h is None:
        try:
            with open(path, "rb") as f:
                h = hashlib.sha1(f.read()).hexdigest()
        except OSError:
            h = "missing"
        _hash_cache[path] = h
    return h


def parse_deps(dfile):
    try:
        txt = open(dfile).read()
    except OSError:
        return None
    txt = txt.replace("\\\n", " ")
    if ":" not in txt:
        return None
    deps = txt.split(":", 1)[1].split()
    return [d for d in deps if not d.startswith("/usr/")]


def key_for(flags, src, deps):
    h = hashlib.sha1()
    h.update(" ".join(flags).encode())
    h.update(fhash(src).encode())
    for d in sorted(set(deps)):
        h.update(d.encode())
        h.update(fhash(d).encode())
    return h.hexdigest()


def compile_one(cc, flags, src, obj):
    """returns (rebuilt?, ok, stderr)"""
    dfile = obj + ".d"
    kfile = obj + ".key"
    deps = parse_deps(dfile)
    if deps is not None and os.path.exists(obj) and os.path.exists(kfile):
        if open(kfile).read().strip() == key_for(flags, src, deps):
            return (False, True, "")
    os.makedirs(os.path.dirname(obj), exist_ok=True)
    cmd = cc + flags + ["-MMD", "-MF", dfile, "-c", src, "-o", obj]
    p = subprocess.run(cmd, capture_output=True, text=True)
    if p.returncode != 0:
        for f in (obj, kfile):
            if os.path.exists(f):
                os.unlink(f)
        return (True, False, p.stderr)
    deps = parse_deps(dfile) or []
    with open(kfile, "w") as f:
        f.write(key_for(flags, src, deps))
    return (True, True, p.stderr)


def lib_sources():
    out = []
    for lib in LIBS:
        d = os.path.join(COLA, lib)
        for fn in sorted(os.listdir(d)):
            if fn.endswith(".cpp"):
                out.append((lib, os.path.join(d, fn)))
    return out


def build_libs(flavour, quiet=False):
    cc, fl = FLAVOURS[flavour]
    flags = COMMON + fl
    root = os.path.join(BUILD, flavour)
    os.makedirs(root, exist_ok=True)
    t0 = time.time()
    jobs = []
    for lib, src in lib_sources():
        obj = os.path.join(root, "obj", lib, os.path.basename(src)[:-4] + ".o")
        jobs.append((lib, src, obj))
    # drop objects whose source disappeared
    want = {o for _, _, o in jobs}
    for lib in LIBS:
        d = os.path.join(root, "obj", lib)
        if os.path.isdir(d):
            for fn in os.listdir(d):
                if fn.endswith(".o") and os.path.join(d, fn) not in want:
                    os.unlink(os.path.join(d, fn))
    with ThreadPoolExecutor(JOBS) as ex:
        res = list(ex.map(lambda j: compile_one(cc, flags, j[1], j[2]), jobs))
    bad = [(j, r) for j, r in zip(jobs, res) if not r[1]]
    if bad:
        for j, r in bad:
            sys.stderr.write("COMPILE FAILED %s\n%s\n" % (j[1], r[2][-4000:]))
        return None
    rebuilt = sum(1 for r in res if r[0])
    archive = os.path.join(root, "libadaptagrams.a")
    if rebuilt or not os.path.exists(archive):
        if os.path.exists(archive):
            os.unlink(archive)
        subprocess.check_call(["ar", "rcs", archive] + [j[2] for j in jobs])
    if not quiet:
        sys.stderr.write("[build] %s libs: %d/%d objects rebuilt in %.1fs\n"
                         % (flavour, rebuilt, len(jobs), time.time() - t0))
    return archive


def build_harness(flavour, name, quiet=False):
    """compile /verif/harness/<name>.cpp and link it against the flavour libs"""
    archive = build_libs(flavour, quiet=True)
    if archive is None:
        return None
    if name.endswith(".py"):
        return os.path.join(VERIF, "harness", name)   # script speaking the harness protocol (compiles what it needs itself)
    cc, fl = FLAVOURS[flavour]
    flags = COMMON + fl + ["-I" + os.path.join(VERIF, "harness")]
    src = os.path.join(VERIF, "harness", name + ".cpp")
    root = os.path.join(BUILD, flavour)
    obj = os.path.join(root, "hobj", name + ".o")
    t0 = time.time()
    rebuilt, ok, err = compile_one(cc, flags, src, obj)
    if not ok:
        sys.stderr.write("HARNESS COMPILE FAILED %s\n%s\n" % (src, err[-6000:]))
        return None
    exe = os.path.join(root, "bin", name)
    os.makedirs(os.path.dirname(exe), exist_ok=True)
    need = rebuilt or not os.path.exists(exe) or \
        os.path.getmtime(exe) < os.path.getmtime(archive)
    if need:
        cmd = cc + [f for f in fl if f.startswith("-fsanitize") or f.startswith("-fno-sanitize")] + \
            ["-g", "-no-pie", obj, archive, "-o", exe, "-lpthread"]
        p = subprocess.run(cmd, capture_output=True, text=True)
        if p.returncode != 0:
            sys.stderr.write("HARNESS LINK FAILED %s\n%s\n" % (name, p.stderr[-6000:]))
            return None
    if not quiet:
        sys.stderr.write("[build] %s harness %s %s in %.1fs\n"
                         % (flavour, name, "rebuilt" if need else "up to date", time.time() - t0))
    return exe


def main():
    if len(sys.argv) < 3:
        print(__doc__)
        return 2
    what, flavour = sys.argv[1], sys.argv[2]
    if what == "libs":
        return 0 if build_libs(flavour) else 2
    if what == "harness":
        ok = True
        for n in sys.argv[3:]:
            ok = bool(build_harness(flavour, n)) and ok
        return 0 if ok else 2
    return 2


if __name__ == "__main__":
    sys.exit(main())
