"""Per-property workload tables for /verif/check.

Each workload: harness (file under harness/), mode, number of cases for the
quick and the thorough tier, per-case watchdog in seconds; `fixed` marks
enumerations whose size is not scaled; `san_thorough` is the number of cases
re-run under ASan+UBSan in the thorough tier.
"""

TINY = 3 + 9 * 585 + 27 * 14425

CHECKS = {}

CHECKS["C01"] = dict(
    level="exploration",
    rule=("cases = VPSC instances from generators dag/multigraph/cycles/equalities/structured/scaled-dag/ties/dense-small "
          "(integer and continuous data, n 1..300), the exhaustive family n<=3,m<=3,gaps{-1,0,1,2},d{0,1,2}, and live-IncSolver "
          "histories (constraints added, desired positions moved, variable weights changed between solves); each run through vpsc::Solver, vpsc::IncSolver and Avoid::IncSolver (satisfy and solve). "
          "non-trivial = at least one constraint ends tight (a merge happened) or the instance is infeasible; "
          "for histories: a re-solve changed the positions. distinct = distinct 64-bit digest of the expanded case"),
    workloads=[
        dict(harness="c01_vpsc", mode="instances", quick=300000, thorough=20000000, watchdog=30, san_thorough=60000),
        dict(harness="c01_vpsc", mode="tiny", quick=TINY, thorough=TINY, fixed=True, watchdog=30, san_thorough=20000),
        dict(harness="c01_vpsc", mode="histories", quick=60000, thorough=4000000, watchdog=30, san_thorough=10000),
    ],
    min_nontrivial=dict(quick=5000, thorough=50000),
    max_inconclusive=0.02,
    require_obs=["infeasible_correctly_flagged", "history_solves", "runs.avoid.solve", "runs.static.solve", "weight_changes_on_a_live_solver"],
    exhaustive_note="mode 'tiny' enumerates every instance with n<=3, m<=3, gaps in {-1,0,1,2}, desired in {0,1,2}, unit weights (394,743 instances); the other workloads are sampled",
    assumptions=[
        "static vpsc::Solver is exercised on acyclic constraint graphs only (its documented domain)",
        "feasibility oracle (Bellman-Ford) applies to inequality-only, unscaled systems; borderline cycle sums (|sum|<1e-7 on continuous data) are not judged",
        "live-solver histories change desired positions and add constraints only (weights are cached by the solver and not changed live)",
    ],
)

CHECKS["C02"] = dict(
    level="exploration",
    rule=("cases = feasible VPSC instances (same generators as C01, incl. scaled variables and equalities) on which nothing is flagged; "
          "the optimum is certified per case by an independent oracle (Hildreth dual ascent + exact KKT check in long double, or exhaustive "
          "active-set enumeration for n<=6,m<=8) and compared with solve() of vpsc::Solver (DAGs), vpsc::IncSolver and Avoid::IncSolver; "
          "perm: 4 permutations of variable/constraint order and ids per instance; resolve: live IncSolver re-solved after desired positions move and after variable weights change (what cola::GradientProjection does when it fixes or releases a node). "
          "non-trivial = the optimum differs from the unconstrained optimum and from the point satisfy() returns"),
    workloads=[
        dict(harness="c01_vpsc", mode="opt", quick=30000, thorough=1500000, watchdog=60, san_thorough=30000),
        dict(harness="c01_vpsc", mode="tinyopt", quick=TINY, thorough=TINY, fixed=True, watchdog=30),
        dict(harness="c01_vpsc", mode="perm", quick=6000, thorough=200000, watchdog=60, san_thorough=5000),
        dict(harness="c01_vpsc", mode="resolve", quick=6000, thorough=300000, watchdog=60, san_thorough=5000),
        dict(harness="c01_vpsc", mode="regress", quick=1, thorough=1, fixed=True, watchdog=30),
    ],
    min_nontrivial=dict(quick=3000, thorough=30000),
    max_inconclusive=0.05,
    require_obs=["solves_judged", "permuted_runs", "resolve_points_judged", "oracle_cross_checked"],
    exhaustive_note="mode 'tinyopt' enumerates every feasible instance with n<=3, m<=3, gaps in {-1,0,1,2}, desired in {0,1,2}; the other workloads are sampled",
    assumptions=[
        "the oracle's answer is used only when it carries a KKT / duality certificate; uncertified cases are inconclusive",
        "tolerance 1e-5 x max(1, spread of desired positions, largest |gap|), as the property states",
    ],
)


# ---------------------------------------------------------------- texts for MANIFEST.json
NOT_APPLICABLE = {}
MANIFEST_TEXT = {}
MANIFEST_TEXT["C01"] = dict(
    technique="runtime monitor: independent residual + Bellman-Ford feasibility oracle over generated and exhaustively enumerated instances and live-solver histories; ASan/UBSan re-run in thorough",
    text="Held on every execution observed: all three solver implementations are run on ~0.4M (quick) / millions (thorough) of generated instances, on the complete family of tiny instances, and on live IncSolver histories; each result is judged by an oracle that shares no code with VPSC. Exploration, not proof: reach comes from generator diversity (cycles, duplicates, ties, equalities, scales) and the exhaustive tiny family.",
    note="Trusts the harness oracle (residual evaluation, Bellman-Ford on inequality-only unscaled systems) and gcc's sanitizer runtimes; static Solver only on DAG input; cases whose feasibility is numerically borderline are not judged.",
)
MANIFEST_TEXT["C02"] = dict(
    technique="runtime monitor: per-case certified QP optimum (Hildreth dual ascent + exact KKT check / active-set enumeration) compared with solve(); permutation and re-solve metamorphic runs",
    text="Every judged case carries an optimality certificate obtained independently of VPSC (KKT conditions verified in long double, or exhaustive active-set enumeration), so a disagreement beyond 1e-5*scale is a proven sub-optimal answer, not a heuristic suspicion. Held on the executions observed (30k+ random, all tiny instances, permutations, live re-solves); two recorded defects (F3, F14) are matched by signature.",
    note="Trusts the oracle's certificate arithmetic (long double Gaussian elimination, tolerance 1e-11*scale); cases the oracle cannot certify are inconclusive; F3/F14 signatures are evaluated by the harness (F14 via the libvpsc hook counter).",
)

CHECKS["C17"] = dict(
    level="exploration",
    rule=("cases = weighted undirected multigraphs (generators simple/parallel-edges/self-loops/zero-weights/disconnected/unit-empty-array/dense, n 1..300); "
          "dijkstra (several sources), johnsons, floyd_warshall (n<=120) and ConstrainedFDLayout::readLinearD/G (n<=60, incl. non-positive eLengths) "
          "compared with a Bellman-Ford + union-find oracle. non-trivial = some pair's shortest path is shorter than any direct edge between the pair (multi-hop)"),
    workloads=[
        dict(harness="c17_paths", mode="graphs", quick=20000, thorough=4000000, watchdog=60, san_thorough=20000),
        dict(harness="c17_paths", mode="regress", quick=1, thorough=1, fixed=True, watchdog=30),
    ],
    min_nontrivial=dict(quick=3000, thorough=30000),
    max_inconclusive=0.01,
    require_obs=["dijkstra_runs", "allpairs_runs", "layout_matrices", "graphs_with_unreachable_pairs"],
    assumptions=["relative tolerance 1e-9; G's diagonal is not judged (the property speaks of pairs)"],
)
MANIFEST_TEXT["C17"] = dict(
    technique="runtime monitor: Bellman-Ford + union-find reference model compared with all three algorithms and the layout's D/G matrices on generated multigraphs",
    text="Every generated graph is solved by the three library algorithms and by an independent Bellman-Ford; all n^2 entries (and the unreachable sentinel, symmetry, diagonal) are compared. Held on the executions observed; exploration by generator diversity (parallel edges, self-loops, zero weights, disconnected, empty-weights convention).",
    note="Trusts the harness' Bellman-Ford (self-checked against union-find components on every case).",
)

CHECKS["C09"] = dict(
    level="exploration",
    rule=("cases = rectangle sets (generators continuous/integer-grid/identical-copies/thin/nested/chain/dense-large/mixed, n 2..400) x fixed subset "
          "(none/singleton/several) x thirdPass x preset x/y borders x both overloads for removeoverlaps; and, for the constraint generators, sets n<=70 "
          "checked by longest paths in the generated constraint DAG. non-trivial = at least one pair overlaps initially"),
    workloads=[
        dict(harness="c09_overlaps", mode="sets", quick=12000, thorough=1000000, watchdog=120, san_thorough=15000),
        dict(harness="c09_overlaps", mode="gen", quick=12000, thorough=800000, watchdog=60, san_thorough=10000),
    ],
    min_nontrivial=dict(quick=3000, thorough=30000),
    max_inconclusive=0.01,
    require_obs=["initially_overlapping_pairs", "fixed_rectangles_checked", "pairs_needing_separation"],
    assumptions=["overlap tolerance 1e-6 (as stated); size tolerance 1e-9 relative to coordinate magnitude",
                 "the weight-bound form of the fixed clause (10000*|d_f| <= sum |d_i|) is judged for a single fixed rectangle only: with several fixed rectangles in one block it is not implied"],
)
MANIFEST_TEXT["C09"] = dict(
    technique="runtime monitor: pairwise interval-arithmetic oracle on outputs of removeoverlaps; longest-path analysis of the generated constraint DAG (covers all satisfying placements)",
    text="Each generated rectangle set is pushed through removeoverlaps (both overloads, fixed subsets, third pass, preset borders) and judged from the public getters; the constraint generators are judged by longest paths in their output DAG, which decides the 'any satisfying placement' clause for that input exactly. Held on the executions observed; F5 (fixed = weight 10000) is a recorded finding matched by signature.",
    note="Trusts the harness' interval arithmetic and DAG longest-path code; ties in the other axis (touching rectangles, overlap <= 1e-9) are not required to be separated.",
)

CHECKS["C16"] = dict(
    level="exploration",
    exhaustive=False,
    rule=("grid3/grid4: every ordered point triple / quadruple on a 5x5 (quick) or 6x6 (thorough) integer grid (one case = one (a,b) pair or (a,b,c) triple "
          "against all grid points); poly: every non-degenerate triangle and simple quadrilateral on the grid x every grid query point; random: coordinates "
          "up to 2^20 with forced collinear / shared-endpoint / parallel / touching configurations. non-trivial = the case contains a degenerate configuration "
          "(a zero orientation, or a query point on the polygon boundary). distinct = distinct tuple index / coordinates"),
    workloads=[
        dict(harness="c16_geom", mode="grid3", quick=625, thorough=1296, fixed=True, watchdog=60, params=dict(grid=5), thorough_params=dict(grid=6), san_thorough=625),
        dict(harness="c16_geom", mode="grid4", quick=15625, thorough=46656, fixed=True, watchdog=60, params=dict(grid=5), thorough_params=dict(grid=6), san_thorough=15625),
        dict(harness="c16_geom", mode="poly", quick=15625 + 390625, thorough=46656 + 1679616, fixed=True, watchdog=60, params=dict(grid=5), thorough_params=dict(grid=6)),
        dict(harness="c16_geom", mode="random", quick=3000000, thorough=40000000, watchdog=60, san_thorough=200000),
    ],
    min_nontrivial=dict(quick=20000, thorough=100000),
    max_inconclusive=0.0,
    require_obs=["tuples", "polygon_queries", "convex_positive_polygons", "other_simple_polygons"],
    exhaustive_note="grid3, grid4 and poly enumerate their finite spaces completely (5x5 grid in quick: 15,625 triples, 390,625 quadruples, all triangles/simple quadrilaterals x 25 query points; 6x6 in thorough); 'random' is sampled",
    assumptions=["pointOnLine/inBetween are judged against the OPEN-segment meaning both code branches implement (the header comment says 'closed'; the discrepancy is noted in DESIGN.md, not judged)",
                 "inPoly is queried only with positively oriented convex polygons, as the library requires",
                 "intersection points: within 8 ulp of the largest input coordinate (times 1+|t| for ray intersections) of the exact rational point"],
)
MANIFEST_TEXT["C16"] = dict(
    technique="runtime monitor: exhaustive enumeration of small integer grids + random large integers, each predicate compared with an exact __int128 / rational reference; swap/reverse symmetry checks",
    text="The finite grid spaces are enumerated completely and every predicate result is compared with exact integer arithmetic, so within those spaces the verdict is exhaustive; larger coordinates are sampled with forced degeneracies. Exploration level overall because the property also speaks of coordinates up to 2^20.",
    note="Trusts the harness' __int128 reference predicates; semantics of pointOnLine (open segment) and segmentShapeIntersect (half-open touching rule) taken from the code's documented behaviour.",
)

CHECKS["C18"] = dict(
    level="exploration",
    exhaustive=False,
    rule=("table: the complete product gap type {CENTRE,BDRY} x direction {E,S,W,N,R,D,L,U} x relation {==,>=} x gap {12, +0, -0, -12, 3.5, -3.5} x transform sequence "
          "(7 single transforms, all 49 ordered pairs, CW^4, ACW^4, CW.CW.R180) x storage order ((a,b) or (b,a) with negated direction) x second constraint on the other axis "
          "(none / before / after, each also with the ids given in the opposite order) = 113,280 cases; each constraint is read through SepMatrix::writeTglf() (own interpreter of the documented TGLF meaning) and through the "
          "vpsc::Constraint objects of generateSeparationConstraints(), and evaluated on ~700 two-node placements around every satisfaction threshold (node extents random, "
          "non-square, swapped by quarter turns and diagonal flips); "
          "subset: transformClosedSubset/transformOpenSubset/removeNode/removeNodes on random 3-7 node matrices against pair-wise application, Graph::rotate90cw/acw/180; "
          "roundtrip: random graphs (1-12 nodes, external ids in any order or missing, quarter-unit geometry, routes, 1-10 constrained pairs incl. -0 gaps and extra boundary gap) "
          "written, parsed independently, read back by the library and written again. non-trivial = (table) the writer accepted the constraint, (subset) the operation "
          "touches some but not all pairs, (roundtrip) the graph has both edges and constraints"),
    workloads=[
        dict(harness="c18_dialect", mode="table", quick=113280, thorough=113280, fixed=True, watchdog=60, san_thorough=113280),
        dict(harness="c18_dialect", mode="subset", quick=60000, thorough=2000000, watchdog=60, san_thorough=20000),
        dict(harness="c18_dialect", mode="roundtrip", quick=30000, thorough=1000000, watchdog=60, san_thorough=20000),
    ],
    min_nontrivial=dict(quick=80000, thorough=500000),
    max_inconclusive=0.06,
    require_obs=["placements_evaluated", "placements_satisfying", "placements_violating", "identity_sequences_checked", "composite_sequences_compared_with_single_transform",
                 "subset_pairs_expected_transformed", "pairs_expected_removed", "graph_rotations_checked", "round_trips", "constraint_lines_round_tripped", "edges_compared"],
    exhaustive_note="the table of constraint kind x transform sequence combinations is enumerated completely in both tiers; placements, subset and round-trip inputs are sampled",
    assumptions=["a CENTRE == 0 cardinal constraint ('constrained to coincide') is refused by the writer with the documented runtime_error: counted as inconclusive (4% of the table)",
                 "negative gaps have no a-priori reference meaning (the matrix stores direction in the gap's sign bit); they are judged by commutation, flipped storage, group laws and channel agreement only",
                 "quarter turns and diagonal flips swap each node's width and height in the transformed placement (a geometric transformation of the plane)",
                 "round-trip data uses at most 6 significant digits (the writer's printed precision) and gaps that are multiples of 1/8 (3 decimals)"],
)
MANIFEST_TEXT["C18"] = dict(
    technique="runtime monitor: exhaustive table of constraint x transform-sequence combinations judged on sampled placements through two observation channels (written TGLF read by an independent interpreter; generated VPSC constraints), plus differential and round-trip monitors on random matrices/graphs",
    text="Each combination is actually executed (addSep, transform..., writeTglf, generateSeparationConstraints) and the results are compared with a plane map and a constraint interpreter written from the documentation: sat(c,P) <=> sat(T(c),T(P)), identity sequences restore the text, composites agree with the single transform they equal, (a,b)/(b,a) storage gives identical output, both channels agree. Round trips are compared with the generated record by an independent parser, with the re-read graph via the API, and write-read-write must be a fixed point. Held on the executions observed.",
    note="Trusts the harness' TGLF interpreter (dialect_common.h) and plane maps. Graph::updateColaGraphRep() keeps stale rectangles after setDims/setCentre; the harness writes placement geometry into the rectangles directly (noted in DESIGN.md).",
)

CHECKS["C19"] = dict(
    level="exploration",
    rule=("peel: connected simple graphs, 1-60 nodes (random connected, trees, cycles, ladders, cores with hanging trees, hubs, dense cores, paths, stars, double-centre trees, "
          "caterpillars): peel() is compared with an independent 2-core computation and the partition laws of the statement (nodes, tree roots, acyclic connected trees, "
          "edge multiset, no leaf in the core); every returned Tree is then laid out with Tree::symmetricLayout() (random growth direction, node separation, rank separation "
          ">= largest node extent, convex ordering on/off) and all node boxes are tested pairwise for overlap; 20% of the cases build a union of 1-5 graphs and check "
          "Graph::getConnComps(). planarise: 2-14 nodes on a 20-unit lattice with own axis-parallel routes (straight, L, Z, U shapes; crossings, shared sub-routes, T contacts), "
          "OrthoPlanariser::planarise() with constraints on/off: result edges axis-parallel, pairwise neither crossing nor overlapping, original nodes present and unmoved, "
          "former neighbours connected through new nodes only. non-trivial = (peel) the graph has both a core and a peeled part / >= 2 components, (planarise) the input routes cross"),
    workloads=[
        dict(harness="c19_decomp", mode="peel", quick=300000, thorough=6000000, watchdog=60, san_thorough=20000),
        dict(harness="c19_decomp", mode="planarise", quick=200000, thorough=4000000, watchdog=60, san_thorough=20000),
    ],
    min_nontrivial=dict(quick=100000, thorough=1500000),
    max_inconclusive=0.02,
    require_obs=["graphs_peeled", "trees_returned", "tree_nodes_checked", "trees_laid_out", "tree_node_pairs_checked", "component_extractions", "graphs_planarised",
                 "input_route_crossings", "routes_with_collinear_interior_points_cases", "result_edge_pairs_checked", "former_neighbour_pairs_checked"],
    assumptions=["symmetric layout is called with rankSep >= the largest node extent of the tree (rankSep is a centre-to-centre rank distance)",
                 "planarise inputs keep routes clear of other nodes' boxes and never fold back on themselves; coordinates are multiples of 10 (the planariser merges points closer than 0.5)",
                 "a pure tree input leaves a core of at most one node (the documented root; the double-centre case leaves an empty core)"],
)
MANIFEST_TEXT["C19"] = dict(
    technique="runtime monitor: structural oracles over the objects returned by peel()/getConnComps()/symmetricLayout()/planarise() on generated graphs (independent 2-core, partition laws, pairwise box and segment geometry, reachability through new nodes)",
    text="Every returned decomposition is checked against the statement with an independent computation: node and edge partition, tree shape, core = 2-core, component partition, overlap-free tree layouts, and for planarisation a pairwise crossing/overlap test of all result edges plus a search that reconnects every former neighbour pair through new nodes only. Held on the executions observed.",
    note="Reads the public Graph/Tree/Node/Edge accessors only.",
)

def _san(harness, mode, quick, thorough, watchdog=120, **kw):
    d = dict(harness=harness, mode=mode, flavour="san", quick=quick, thorough=thorough, watchdog=watchdog)
    d.update(kw)
    return d

CHECKS["C15"] = dict(
    level="exploration",
    leakcheck=True,
    ignore_functional=True,
    rule=("every generated case of every monitor harness (all five libraries: build, use, edit, tear down) re-run in an AddressSanitizer + UndefinedBehaviourSanitizer build with a "
          "LeakSanitizer check after EVERY case, assertions delivered as exceptions, a watchdog per case; plus API-lifecycle histories aimed at ownership: shapes with pins in use "
          "deleted, connectors and junctions deleted inside pending transactions, moves followed by deletes, routers destroyed with queued actions; libcola layouts that are handed rectangles, compound constraints (the same pointer listed more than once), "
          "cluster hierarchies and unsatisfiable-constraint lists and either free them themselves (freeAssociatedObjects) or leave that to the caller, majorization with those lists and overlap avoidance together; and the repository's own test programs run in the same sanitizer build. "
          "non-trivial = as defined by the respective harness (lifecycle histories: an object was deleted while another still referred to it, or the router was destroyed with queued actions)"),
    workloads=[
        _san("c01_vpsc", "instances", 10000, 200000), _san("c01_vpsc", "histories", 4000, 50000), _san("c01_vpsc", "opt", 3000, 60000), _san("c01_vpsc", "resolve", 1500, 30000),
        _san("c17_paths", "graphs", 2500, 60000), _san("c09_overlaps", "sets", 2500, 60000), _san("c09_overlaps", "gen", 2500, 60000),
        _san("c16_geom", "random", 100000, 2000000),
        _san("c03_route", "valid", 1500, 40000), _san("c03_route", "shortest", 1500, 30000), _san("c03_route", "ortho", 2500, 50000),
        _san("c06_incr", "history", 2500, 60000, watchdog=60), _san("c10_nudge", "nudge", 2500, 60000), _san("c11_pins", "pins", 1500, 40000), _san("c12_hyper", "hyper", 2500, 60000),
        _san("c07_cola", "constraints", 1500, 30000, watchdog=60), _san("c07_cola", "overlap", 1000, 20000),
        _san("c13_topology", "pipeline", 800, 20000), _san("c13_topology", "direct", 4000, 50000, watchdog=60),
        _san("c14_hola", "random", 160, 3000, watchdog=300),
        _san("c18_dialect", "subset", 3000, 50000), _san("c18_dialect", "roundtrip", 4000, 50000),
        _san("c19_decomp", "peel", 8000, 150000), _san("c19_decomp", "planarise", 5000, 100000),
        _san("c15_api", "avoid", 5000, 80000, watchdog=60), _san("c15_api", "vpsc", 8000, 150000, watchdog=30), _san("c15_api", "cola", 20000, 200000, watchdog=60), _san("c15_api", "regress", 3, 3, fixed=True, watchdog=60),
        # the repository's own 178 test programs compiled against the sanitizer build (quick: the first 24 of the sorted list)
        _san("repo_tests.py", "repotests", 24, 178, fixed=True, watchdog=300),
    ],
    min_nontrivial=dict(quick=30000, thorough=500000),
    max_inconclusive=0.08,
    require_obs=[],
    assumptions=["a case that ends in a library assertion is not leak-checked for that case's objects: the router/solver an exception unwound through is abandoned, not destroyed "
                 "(such leaks are suppressed by matching the abandoned object's allocation site in the harness)",
                 "reads of uninitialised values are only detected when they lead to a UBSan report (invalid bool/enum load) or a behavioural difference seen by C20; MemorySanitizer "
                 "is not used because libstdc++ is not instrumented (valgrind memcheck sample in the thorough tier)"],
)
MANIFEST_TEXT["C15"] = dict(
    technique="compiler sanitizers as the oracle (gcc AddressSanitizer + UndefinedBehaviourSanitizer, LeakSanitizer check after every case, throwing COLA_ASSERT, per-case watchdog) over all generated API workloads and lifecycle histories",
    text="All monitor workloads are replayed in a sanitizer build: any ASan/UBSan report, assertion (CriticalFailure), foreign exception, crash, hang beyond the watchdog (re-run alone before being reported) or per-case leak with a library allocation stack is a violation, identified by its innermost library frames. The same signals seen by any other check are reported under this property as well. Held on the executions observed; red-zone tools miss intra-object overflows and reads of uninitialised data that do not trip UBSan.",
    note="One sanitizer family per build (address+undefined); reports are fatal (-fno-sanitize-recover=all, abort_on_error=1) and the driver restarts the slice after the failing case.",
)

CHECKS["C20"] = dict(
    level="exploration",
    rule=("route-repeat: C03-style scenes (separated / touching / dense, both routing modes, penalties, buffers, nudging options, 1-6 connectors) routed twice in one process; before each run "
          "the heap is churned with blocks of the sizes of the libraries' own objects (Router, ConnRef, VertInf, Variable, Block, ...) filled with a different byte pattern and freed, and "
          "an unrelated scene is routed in between: displayRoute() and route() of every connector must be bit-identical. route-frame: the scene translated by multiples of 2^-10 up to "
          "+-2000 (routes must translate: exactly for polyline, 1e-7 for nudged orthogonal routes) and mapped by one of the 7 non-trivial symmetries of the square (vertex order and "
          "direction flags mapped too): every route's cost (length + segmentPenalty x bends; raw route for orthogonal) must be unchanged. vpsc: IncSolver/Solver problems (2-30 variables, "
          "constraints kept jointly satisfiable by a witness placement, equalities included, integer and real data) solved again after heap churn (bit-identical), with desired positions translated (solution translates to 1e-7) and with variables "
          "relabelled and constraints reordered (same positions to 1e-6). layout: ConstrainedFDLayout / ConstrainedMajorizationLayout / removeoverlaps twice on equal inputs, the second "
          "time with the rectangles handed out in the opposite address order and a different heap pattern, and doHOLA twice on equal graphs: positions equal to 1e-9. "
          "non-trivial = some route bends / the solver moved a variable / always for layouts"),
    workloads=[
        dict(harness="c20_repeat", mode="route-repeat", quick=16000, thorough=400000, watchdog=120, san_thorough=6000),
        dict(harness="c20_repeat", mode="route-frame", quick=16000, thorough=400000, watchdog=120, san_thorough=6000),
        dict(harness="c20_repeat", mode="vpsc", quick=40000, thorough=1500000, watchdog=60, san_thorough=20000),
        dict(harness="c20_repeat", mode="layout", quick=2500, thorough=80000, watchdog=300, san_thorough=600),
    ],
    min_nontrivial=dict(quick=30000, thorough=600000),
    max_inconclusive=0.05,
    require_obs=["routes_compared", "routes_compared_under_translation", "routes_compared_under_symmetry", "solves_compared", "layouts_compared"],
    assumptions=["heap churn uses malloc/free of the library objects' sizes so that glibc hands the patterned blocks to the next run's objects (an uninitialised member then differs between the runs)",
                 "translation of nudged orthogonal routes is compared to 1e-7 (the nudging solver divides by weights, which does not commute exactly with translation)",
                 "route-frame scenes use segmentPenalty only, so that a route's cost is determined by the route itself",
                 "doHOLA throwing std::runtime_error yields no result: inconclusive"],
)
MANIFEST_TEXT["C20"] = dict(
    technique="runtime differential monitor: the same API calls executed twice in one process around deliberate heap churn and address-order changes, and in translated / rotated / mirrored / relabelled frames, results compared bit-for-bit or to the stated tolerance",
    text="Dependence on uninitialised memory, pointer values or absolute coordinates shows up as a difference between two executions of the real code on equal inputs; the monitor provokes such differences (patterned heap reuse, reversed allocation order, unrelated work in between, eight frames) and compares every route, solver position and layout position. Held on the executions observed; recorded order-dependence of the solvers and pointer-order dependence of two layouts are matched by signature with rate ceilings.",
    note="Heap reuse behaviour is glibc-specific; the sanitizer re-run in the thorough tier uses ASan's allocator (quarantine) and therefore mostly exercises the frame comparisons.",
)

CHECKS["C03"] = dict(
    level="exploration",
    rule=("cases = scenes of interior-disjoint convex shapes with integer coordinates in three regimes (separated / touching cells sharing edges and corners / dense), "
          "1-40 shapes (rectangles, triangles, diamonds, convex k-gons), 1-12 connectors with free, on-boundary and centre-pin ends (orthogonal scenes: ends on the border of a shape's bounding box, "
          "where the shape stays an obstacle for that connector), both routing modes, "
          "shapeBufferDistance {0,2,5}, penalty vectors, nudging distances and options; every displayRoute() is judged by exact/eps-inset convex clipping. "
          "non-trivial = the straight segment between some connector's attachments is blocked by a shape"),
    workloads=[
        dict(harness="c03_route", mode="valid", quick=16000, thorough=1500000, watchdog=120, san_thorough=6000),
    ],
    min_nontrivial=dict(quick=3000, thorough=30000),
    max_inconclusive=0.03,
    require_obs=["routes_checked", "routes_with_blocked_straight_line", "buffered_routes_checked", "orthogonal_endpoints_on_a_shape_border"],
    assumptions=["a shape is exempt for a connector already when an endpoint lies on its border (more lenient than the router's strict-interior rule)",
                 "orthogonal mode: free endpoints are generated outside shape bounding boxes (the orthogonal router works on bounding boxes)",
                 "an invalid route is accepted as the documented straight-line fallback only when no path with clearance 1/4 exists (own visibility graph on inflated shapes)",
                 "buffer zones are judged for rectangles only; for other polygons only the un-buffered polygon is judged"],
)
MANIFEST_TEXT["C03"] = dict(
    technique="runtime monitor: exact convex-clipping oracle on every displayed route of generated scenes (three regimes, both modes, buffers, penalties, nudging, pins)",
    text="Every route produced for thousands of generated scenes is checked from the API boundary: >=2 points, exact attachment points, and no segment through the interior of a non-exempt shape, with exact integer arithmetic (1e-7 inset for nudged coordinates). Held on the executions observed; recorded findings are matched by signature.",
    note="Trusts the harness' convex clipping and its clearance-path oracle; sanitizer re-run in thorough.",
)
CHECKS["C04"] = dict(
    level="exploration",
    rule=("cases = scenes of 1-12 separated convex obstacles (gap>=1, integer coordinates), 1-4 polyline connectors between free points, segmentPenalty 0 / 5 / 50; "
          "route cost compared with Dijkstra on an independently built visibility graph (penalty 0: all paths; penalty>0: taut paths). "
          "non-trivial = some route has at least one bend"),
    workloads=[dict(harness="c03_route", mode="shortest", quick=20000, thorough=3000000, watchdog=120, san_thorough=4000)],
    min_nontrivial=dict(quick=1200, thorough=30000),
    max_inconclusive=0.02,
    require_obs=["routes_judged", "routes_with_bends"],
    assumptions=["with segmentPenalty>0 the comparison class is taut paths: bends only at shape corners, wrapping around the shape (the only bends a shortest-path router makes); "
                 "the unrestricted visibility-graph optimum is recorded as an observation"],
)
MANIFEST_TEXT["C04"] = dict(
    technique="runtime monitor: independent visibility-graph Dijkstra (exact integer visibility tests) vs route length / length+penalty*bends",
    text="For each generated scene the optimum is computed by a reference implementation that shares nothing with libavoid (exact convex clipping for visibility, Dijkstra over vertices or directed edges) and the route's cost must agree to 1e-6. Held on the executions observed.",
    note="Trusts the harness' visibility graph and Dijkstra; a valid route cheaper than the oracle is reported as inconclusive (oracle disagreement), never silently accepted.",
)
CHECKS["C05"] = dict(
    level="exploration",
    rule=("ortho: scenes of 1-10 separated rectangles (integer, many shared coordinates), orthogonal connectors between free points, segmentPenalty {1,10,50,200}; "
          "(1) endpoints visible in all directions, 1-3 connectors: raw route cost must equal the optimum of a grid Dijkstra over (cell, heading); (2) one connector with "
          "direction masks: axis-parallel, valid, masks honoured, compared with the grid optimum; (3) as (1) plus 1-2 unjudged bystander connectors whose direction-restricted ends sit on the lines the judged "
          "connectors would like to use (connectors do not interact: no crossing or shared-path penalty). bends: the complete table of Avoid::bends() (8 relative positions x 4 x 4 "
          "directions x 3 distances) against BFS minimum bend counts. non-trivial = route with >=2 bends or a detour longer than the Manhattan distance / table entry with true minimum >=1"),
    workloads=[
        dict(harness="c03_route", mode="ortho", quick=40000, thorough=4000000, watchdog=120, san_thorough=6000),
        dict(harness="c03_route", mode="bends", quick=384, thorough=384, fixed=True, watchdog=30, san_thorough=384),
    ],
    min_nontrivial=dict(quick=3000, thorough=30000),
    max_inconclusive=0.02,
    require_obs=["routes_judged", "routes_with_direction_masks", "table_entries", "bystander_connectors_with_direction_masks"],
    exhaustive_note="mode 'bends' enumerates the complete estimator table (384 entries); 'ortho' is sampled",
    assumptions=["the oracle applies libavoid's documented relaxation of direction masks for endpoints on the outermost scan position of the scene",
                 "a 180-degree reversal is priced as two bends (as libavoid does)"],
)
MANIFEST_TEXT["C05"] = dict(
    technique="runtime monitor: grid Dijkstra over (cell, heading) as reference optimum; exhaustive BFS table for the bend estimator",
    text="Raw orthogonal routes are compared with an independent optimum on the Hanan grid of the scene; the bend estimator is checked on its complete input table against BFS. Held on the executions observed; F16 (turn pruning loses the grid optimum for direction-restricted endpoints) is a recorded finding.",
    note="Trusts the harness' grid oracle and BFS; for direction-restricted endpoints the comparison grid is the one spanned by the scene's own coordinates.",
)

CHECKS["C06"] = dict(
    level="exploration",
    rule=("cases = histories on one live Router: initial scene (2-9 separated convex shapes, 1-4 connectors) followed by 1-12 transactions of 1-4 operations drawn from "
          "move (relative / absolute incl. resize) / delete / add shape, move endpoint, add / delete connector and geometric no-ops, and in some histories changes of the routing parameter "
          "shapeBufferDistance between transactions (the fresh router gets the current value); both routing modes, transactions on and "
          "setTransactionUse(false), segmentPenalty 0 and >0, Router::InvisibilityGrph on and (15% of polyline histories) off; after every processTransaction a freshly built Router for the same final scene is the reference model. "
          "non-trivial = at least one route changed during the history; distinct = digest of the recorded operation history"),
    workloads=[
        dict(harness="c06_incr", mode="history", quick=30000, thorough=1500000, watchdog=30, san_thorough=3000),
        dict(harness="c06_incr", mode="regress", quick=1, thorough=1, fixed=True, watchdog=60),
    ],
    min_nontrivial=dict(quick=8000, thorough=50000),
    max_inconclusive=0.03,
    require_obs=["transactions", "idle_transactions", "geometric_noop_transactions", "route_comparisons", "shape_buffer_distance_changes"],
    assumptions=["at most one operation per shape per transaction (in particular no add+delete of one shape, the documented precondition)",
                 "incremental cheaper than fresh is the fresh router's sub-optimality (C04/C05), counted, not judged here",
                 "a transaction holding only geometric no-ops may re-route to another equal-cost path; only an idle processTransaction() must leave routes bit-identical"],
)
MANIFEST_TEXT["C06"] = dict(
    technique="runtime monitor over API histories with a reference model: after every transaction a fresh Router routes the same final scene and costs/validity are compared; idle transactions checked for bit-identical routes",
    text="Histories are recorded at the client boundary and each intermediate state is compared with routing from scratch, which is exactly the property's statement; reach comes from the operation mix (relative/absolute moves, resizes, deletions, added connectors, no-ops), both modes and both transaction settings. Held on the executions observed.",
    note="Trusts the fresh Router as reference for cost (its own optimality is C04/C05's business) and the harness' convex clipping for validity.",
)

CHECKS["C10"] = dict(
    level="exploration",
    rule=("cases = orthogonal scenes built to force sharing: 1-3 rows x 2-4 columns of rectangles with corridors of width {6,12,30,60}, 2-10 connectors between centre pins "
          "and free points, idealNudgingDistance {1,4,10,25}, segmentPenalty {10,50,200}; half of the cases with the default nudging options, half over all 2^4 combinations; "
          "30% of scenes carry checkpoints (random free points, and checkpoints placed straight out from a connector end beyond the half-way line of its z-bend, so that the first/last leg carries them). route() and displayRoute() are compared. non-trivial = two connectors without a common end are collinear in the raw routes"),
    workloads=[dict(harness="c10_nudge", mode="nudge", quick=30000, thorough=2000000, watchdog=120, san_thorough=6000)],
    min_nontrivial=dict(quick=5000, thorough=30000),
    max_inconclusive=0.08,
    require_obs=["routes", "pairs_sharing_a_raw_stretch", "checkpoints_checked", "checkpoints_placed_straight_out_from_an_end", "separated_pairs_checked", "two_sharer_pairs_checked"],
    assumptions=["an overlapping stretch is excused when both segments are pinned (first/last segment of a route or carrying a checkpoint) or when the corridor alongside both full segments is narrower than (sharers-1) x distance",
                 "separation clauses are judged in checkpoint-free scenes only",
                 "minimum separation model: the library reduces the distance in ten equal steps; separated segments are therefore >= distance/10 apart, and with exactly two sharers >= min(distance, corridor) - 2 steps"],
)
MANIFEST_TEXT["C10"] = dict(
    technique="runtime monitor: own comparison of raw and nudged routes (endpoints, bend counts, checkpoints, collinear overlaps vs corridor width, minimum separation model) on forced-sharing scenes",
    text="The monitor compares route() with displayRoute() for every connector of scenes constructed so that cheapest routes share corridors: end points must be bit-identical, nudging may not add bends, checkpoints must stay on the route, separated neighbours must respect the (reduced) distance, and remaining overlaps are classified against the corridor width. Held on the executions observed except for the recorded findings F6, F30, F31, which are matched by signature.",
    note="Overlaps that survive nudging are a recorded finding (F30) in every option combination, so clause (a) contributes evidence (counts) rather than alarms; the endpoint, bend-count, checkpoint and separation-distance clauses alarm.",
)

CHECKS["C11"] = dict(
    level="exploration",
    rule=("cases = scenes of 2-7 rectangles each carrying 1-2 pin classes with 1-4 pins (proportional / absolute offsets, border and interior positions, inside offsets, automatic and "
          "explicit direction masks, default and explicit exclusivity, connection costs), 0-2 junctions, 1-8 connectors attached to pin classes (within exclusive capacity), junctions "
          "or free points, 0-3 checkpoints; then 0-4 transactions moving / resizing shapes, re-targeting connector ends to another shape's pin class or a free point (often in the same transaction "
          "that moves the shape the end was attached to) and mirroring / half-turning a shape's pins with ShapeRef::transformConnectionPinPositions; both routing modes. The monitor holds every pin it created and re-derives its position from "
          "the documented offset rule. non-trivial = a connector uses a class with >=2 pins, or has checkpoints"),
    workloads=[dict(harness="c11_pins", mode="pins", quick=12000, thorough=1500000, watchdog=120, san_thorough=6000)],
    min_nontrivial=dict(quick=3000, thorough=40000),
    max_inconclusive=0.05,
    require_obs=["routes_checked", "pin_ends_checked", "pin_directions_checked", "junction_ends_checked", "checkpoints_checked", "moves", "resizes", "connector_ends_retargeted", "pin_transformations"],
    assumptions=["checkpoint order is judged on route() for orthogonal connectors (what nudging does to checkpoints is C10's business) and on displayRoute() for polyline ones",
                 "numbers of connectors per exclusive pin class stay within capacity ('provided a free pin exists')"],
)
MANIFEST_TEXT["C11"] = dict(
    technique="runtime monitor over inputs and move/resize histories: pin positions re-derived from the documented offset rule, route ends matched to pins/junctions, exit directions, exclusivity counts, checkpoint order",
    text="The harness keeps every ShapeConnectionPin it created and, after each transaction, checks from the API boundary that each attached route end sits exactly on a pin of its class (whose position equals the harness' own evaluation of the offset rule for the shape's current rectangle), leaves in a permitted direction, that exclusive pins are not shared, junction ends sit on the junction and checkpoints are visited in order. Held on the executions observed.",
    note="Trusts the harness' reading of the documented offset/direction rules.",
)

CHECKS["C12"] = dict(
    level="exploration",
    rule=("cases = obstacle fields of 3-10 rectangles with centre pins; 1-2 hyperedges with 3-6 terminals each, given either as a junction/connector tree with junctions placed at random in "
          "free space (improvement with moving only / with adding and deleting junctions; full rerouting registered by junction) or as a terminal list (full rerouting); followed by 0-3 "
          "transactions that move shapes. After every transaction the hyperedge graph is rebuilt from Router::connRefs, m_obstacles and ConnRef::endpointConnEnds(). "
          "non-trivial = the router reported new/deleted objects or moved a junction"),
    workloads=[dict(harness="c12_hyper", mode="hyper", quick=24000, thorough=2500000, watchdog=120, san_thorough=5000)],
    min_nontrivial=dict(quick=1500, thorough=30000),
    max_inconclusive=0.05,
    require_obs=["connectors_checked", "transactions_changing_topology", "new_junctions_reported", "deleted_junctions_reported", "moves"],
    assumptions=["a junction end may equal JunctionRef::position() or recommendedPosition(); a terminal end must lie in the closed rectangle of its shape",
                 "deleted junctions may still be among the router's obstacles (freed at the router's convenience) but must carry no live connector"],
)
MANIFEST_TEXT["C12"] = dict(
    technique="runtime monitor over inputs and histories: hyperedge graph rebuilt from public router state after every transaction; union-find tree checks, terminal multiset, object-list consistency, route ends and obstacle avoidance",
    text="After every transaction the monitor reconstructs each hyperedge from the live connectors' typed ends and checks that it is one tree over exactly the original terminals, that reported new/deleted objects agree with the live objects, and that every route joins its two attachments without crossing a shape. Held on the executions observed; teardown is additionally leak-checked in C15.",
    note="Reads Router::connRefs and Router::m_obstacles (public members) as the live-object ground truth.",
)

CHECKS["C07"] = dict(
    level="exploration",
    rule=("cases = graphs (tree / random / disconnected / edgeless, n 1..60), initial placements (spread, crowded, coincident, collinear), compound constraints of every judged type "
          "(separation incl. equality and between alignments, alignment with offsets and fixed position, boundary, distribution, multi-separation, fixed-relative; page boundaries, whose page is "
          "soft, are judged by 'every member lies within the ACTUAL margins the constraint reports after run()') in a 'satisfiable by construction' regime (derived from a hidden witness placement) and an arbitrary regime; drivers run(), "
          "makeFeasible()+run(), makeFeasible() alone, runOnce()xk and ConstrainedMajorizationLayout::run(); overlap avoidance and neighbour stress on/off; 'locked pair' scenes (two overlapping nodes tied by "
          "an equality separation in one dimension and an alignment in the other, overlap avoidance on, judged straight after makeFeasible()). Every constraint is re-evaluated by an independent "
          "evaluator on the final rectangle centres; it is excused only if an UnsatisfiableConstraintInfo naming that compound constraint was delivered. "
          "non-trivial = some constraint is violated by the initial placement"),
    workloads=[dict(harness="c07_cola", mode="constraints", quick=40000, thorough=800000, watchdog=30, san_thorough=3000)],
    min_nontrivial=dict(quick=1500, thorough=30000),
    max_inconclusive=0.03,
    require_obs=["constraints_checked.separation", "constraints_checked.alignment", "constraints_checked.boundary", "constraints_checked.fixed-relative", "layouts_reporting_unsatisfiable", "page_boundary_members_checked", "locked_pair_cases_satisfiable"],
    assumptions=["tolerance 1e-4 as stated; rectangle size tolerance relative to coordinate magnitude (1e-9)",
                 "AlignmentConstraint::fixPos and PageBoundaryConstraints are soft (weights) and are not judged"],
)
MANIFEST_TEXT["C07"] = dict(
    technique="runtime monitor: independent evaluators per compound-constraint type applied to final positions; excusal only via the delivered unsatisfiable-constraint lists",
    text="Each generated layout problem is run through one of four drivers and every user constraint is re-evaluated from its documented meaning on the returned rectangle centres; a constraint that is violated by more than 1e-4 and was not reported unsatisfiable is a violation, as are changed sizes and non-finite coordinates. Held on the executions observed.",
    note="Trusts the harness' reading of each constraint type's documentation.",
)
CHECKS["C08"] = dict(
    level="exploration",
    rule=("cases = graphs n 1..35 with heavy initial overlap (crowded, coincident, nested rectangles), overlap avoidance on, makeFeasible() then run(); optional exemption groups; "
          "optional hierarchy of rectangular clusters (1-3 clusters, chains up to three levels deep, intermediate clusters that hold only a child cluster and no node of their own, padding/margins) and user constraints derived from a non-overlapping witness placement. "
          "Judged only when nothing was reported unsatisfiable. non-trivial = at least one pair of rectangles overlaps initially"),
    workloads=[dict(harness="c07_cola", mode="overlap", quick=12000, thorough=600000, watchdog=120, san_thorough=2000)],
    min_nontrivial=dict(quick=1500, thorough=30000),
    max_inconclusive=0.03,
    require_obs=["pairs_checked", "sibling_cluster_pairs_checked", "node_vs_foreign_cluster_checked", "clusters_holding_only_a_child_cluster"],
    assumptions=["overlap tolerance 1e-3 in both dimensions, as stated", "cluster member bounding boxes are computed by the harness from node rectangles only (padding/margins ignored: the weaker, stated requirement)"],
)
MANIFEST_TEXT["C08"] = dict(
    technique="runtime monitor: pairwise rectangle-overlap and cluster-containment oracle on final positions of layouts with heavy initial overlap",
    text="After makeFeasible()+run() with overlap avoidance the harness checks every non-exempt pair of rectangles and, with cluster hierarchies, the member bounding boxes of sibling clusters and foreign nodes. Held on the executions observed.",
    note="Judged only when the layout reported nothing unsatisfiable, as the property states.",
)

CHECKS["C13"] = dict(
    level="exploration",
    rule=("cases = the pipeline of the library's own beautify test on random input: 3-12 non-overlapping rectangles (gap 1 or 4), a random connected graph plus extra edges, libavoid polyline "
          "routes turned into topology::Edges with EdgePoints on the routes' (shape, corner) ids, ConstrainedFDLayout + ColaTopologyAddon for 5-120 iterations, optionally with locks "
          "dragging nodes across the drawing and a resize. The monitor runs in the TestConvergence callback at EVERY iteration and once after run(). "
          "direct: topology::TopologyConstraints used as in the library's simple_bend/nodedragging tests, in a release (NDEBUG) build so that only the monitor judges: 3-10 rectangles, "
          "real-valued or on a 5-unit grid (abutting or gap 5: corners of different nodes share coordinates), 1-6 passes alternating axes, one instance per pass given 1-3 successive "
          "goals (instance reuse) of node displacements with weight 1 or 10000; solve() is repeated until it reports no topology event and the state is judged after EVERY solve() return; "
          "in 40% of the cases 1-2 nodes are resized (0.5-2x per axis, about the centre or the min corner) with topology::applyResizes() after one of the passes and the state is judged again. "
          "non-trivial = the number of points of some edge path changed during the run (a bend was created or removed)"),
    workloads=[dict(harness="c13_topology", mode="pipeline", quick=6000, thorough=400000, watchdog=120, san_thorough=3000),
               dict(harness="c13_topology", mode="direct", flavour="rel", quick=100000, thorough=1500000, watchdog=60)],
    min_nontrivial=dict(quick=8000, thorough=150000),
    max_inconclusive=0.08,
    require_obs=["iterations_monitored", "edge_states_checked", "bends_checked", "side_signatures_checked", "cases_where_bends_were_created_or_removed", "solve_calls_monitored", "resizes_applied"],
    assumptions=["interior = rectangle shrunk by 1e-6 (paths legitimately run along node borders)",
                 "side signature: parity of a ray from each foreign node centre against the closed curve path + vertical rays at both path ends; compared between consecutive iterations and judged only when neither path end passed the node's x in that step"],
)
MANIFEST_TEXT["C13"] = dict(
    technique="online runtime monitor hooked on the layout's per-iteration callback: own segment/rectangle geometry, corner and convex-bend tests, step-wise side-signature comparison",
    text="The monitor observes every intermediate state the layout passes through (tens of thousands of iterations per run) rather than only the result: no path segment may enter a foreign node's interior, rectangles may not overlap, path ends stay on their nodes, bends sit on corners and wrap their node, and no node may change side of an edge within a step. Held on the executions observed; libtopology's own debug assertions that fire on random input are reported under C15 (finding F12).",
    note="Reads topology::Nodes / topology::Edges objects handed to ColaTopologyAddon (public members) inside the TestConvergence callback.",
)

CHECKS["C14"] = dict(
    level="exploration",
    rule=("random: connected simple graphs n 1..60 (random connected, trees, cycles, ladders, cores with hanging trees, hubs up to degree 12, dense cores), random node sizes and initial "
          "positions, HolaOpts varied (ACA vs chains for links, near-align on/off, aspect-ratio preference, padding scalar, preferred and default tree growth direction, convex trees, tree routing types); shipped: the TGLF graphs "
          "under libdialect/tests/graphs (connected, simple, <=120 nodes). After doHOLA returns: same node ids / edge multiset, exact node sizes, no overlap, every edge routed with axis-parallel "
          "segments ending at its end nodes and avoiding other nodes, and every separation constraint the graph writes out is satisfied (own interpreter of the TGLF sepco semantics). "
          "non-trivial = the graph has a cycle and a leaf (core plus peeled tree), or some edge is bent"),
    workloads=[dict(harness="c14_hola", mode="random", quick=1600, thorough=40000, watchdog=300, san_thorough=600),
               dict(harness="c14_hola", mode="shipped", quick=120, thorough=240, fixed=True, watchdog=300)],
    min_nontrivial=dict(quick=500, thorough=10000),
    max_inconclusive=0.06,
    require_obs=["edges_checked", "node_pairs_checked", "sepcos_checked", "graphs_with_bent_edges"],
    assumptions=["doHOLA throwing std::runtime_error (documented; about 0.2% of random graphs) yields no result: inconclusive, counted",
                 "route ends must lie within the end node's box enlarged by Graph::getIEL() (the padding documented for connection points)",
                 "separation constraints are evaluated on live node geometry with tolerance 1.6e-3 (the written gaps are rounded to 3 decimals)"],
)
MANIFEST_TEXT["C14"] = dict(
    technique="runtime monitor: structural and geometric oracle on doHOLA's returned graph, including an independent interpreter for the separation constraints it returns",
    text="Each generated or shipped graph is laid out with doHOLA under varied options and the result is judged from public getters: identity of nodes/edges, sizes, overlaps, orthogonality and end attachment of every route, node avoidance, and satisfaction of the returned constraints. Held on the executions observed; finding F51 (whole-graph-is-a-tree inputs) is matched by signature.",
    note="Trusts the harness' reading of the TGLF constraint semantics documented in libdialect/io.h.",
)
